(* Properties/C10_memo.v — An imported environment means the same everywhere, for ARBITRARY expressions (references,
   interpolation, built-ins, secrets, providers).  Only statements closed by [exact]; proofs in Proofs/MemoRel*.v.
   Two-run (relational) theorems: no denotational semantics is involved.  To be merged into Properties/C10.v. *)
From Verif Require Import Base.Bytes Model.Chain Model.Eval.
From Verif Require Import Proofs.ChainAlgebraEnv Proofs.ChainAlgebraLink
  Proofs.MemoRelKit Proofs.MemoRelEval Proofs.MemoRelEnv Proofs.MemoRelSound Proofs.MemoRelMain.
From Verif Require Properties.C10.
From Coq Require Import Lia.
Local Open Scope nat_scope.

(* ---------- the expression level: the five mutually recursive functions, run twice ---------- *)
(* CM: the environment names whose memo entries agree in the two incoming states; the two contexts E1 E2 differ only in root
   and the value of `context`; hypotheses on the worlds: no fault plan (otherwise the call counters would have to agree),
   same providers / check / show flags, same decrypter on the names in CM *)
Theorem C10_eval_two_runs : forall (W1 W2 : world) (CM CI : string -> Prop) (B1 B2 : st),
  w_fault W1 = None -> w_fault W2 = None -> w_provs W1 = w_provs W2 -> w_check W1 = w_check W2 -> w_show W1 = w_show W2 ->
  (forall n, CM n -> forall ct, w_decrypt W1 n ct = w_decrypt W2 n ct) ->
  forall f, P_expr W1 W2 CM CI B1 B2 f /\ P_repr W1 W2 CM CI B1 B2 f /\ P_typed W1 W2 CM CI B1 B2 f
            /\ P_access W1 W2 CM CI B1 B2 f /\ P_walk W1 W2 CM CI B1 B2 f.
Proof. exact eval_two_runs. Qed.

(* ---------- C10_state_independent ---------- *)
(* most general form: two worlds, any set C of names that contains X, is closed under imports and on which the worlds agree.
   Conclusion: EQUAL chains; the final states agree on C again; equal numbers of new diagnostics and collaborator calls; the
   fuel flag is raised in both or in neither; the new log entries are equal up to the root recorded by fn::open; nothing
   outside C is touched.  Import cycles are covered: agreement includes the in-progress marks of the table. *)
Theorem C10_state_independent_gen : forall (W1 W2 : world) (C : string -> Prop),
  w_fault W1 = None -> w_fault W2 = None ->
  w_provs W1 = w_provs W2 -> w_check W1 = w_check W2 -> w_show W1 = w_show W2 ->
  (forall n, C n -> forall ct, w_decrypt W1 n ct = w_decrypt W2 n ct) ->
  (forall n, C n -> alookup n (w_envs W1) = alookup n (w_envs W2)) ->
  (forall n d, C n -> alookup n (w_envs W1) = Some (LoadOk d) -> forall im, In im (ed_imports d) -> C (fst im)) ->
  (forall n d, C n -> alookup n (w_envs W1) = Some (LoadOk d) -> no_context_reference d) ->
  forall (fuel : nat) (root1 root2 X : string) (d : envdef) (s1 s2 : st),
    C X -> (forall im, In im (ed_imports d) -> C (fst im)) -> no_context_reference d ->
    agree C C s1 s2 ->
    fst (eval_env W1 fuel root1 X d s1) = fst (eval_env W2 fuel root2 X d s2)
    /\ outcome_rel C s1 s2 (snd (eval_env W1 fuel root1 X d s1)) (snd (eval_env W2 fuel root2 X d s2)).
Proof. exact state_independent_gen. Qed.

(* one world, C = the import closure of X ([closure W X d]: X and everything reachable from the imports of d) *)
Theorem C10_state_independent : forall (W : world),
  w_fault W = None ->
  forall (fuel : nat) (root1 root2 X : string) (d : envdef) (s1 s2 : st),
    (forall d', alookup X (w_envs W) = Some (LoadOk d') -> d' = d) ->
    no_context_reference d ->
    (forall n dn, closure W X d n -> alookup n (w_envs W) = Some (LoadOk dn) -> no_context_reference dn) ->
    agree (closure W X d) (closure W X d) s1 s2 ->
    fst (eval_env W fuel root1 X d s1) = fst (eval_env W fuel root2 X d s2)
    /\ outcome_rel (closure W X d) s1 s2 (snd (eval_env W fuel root1 X d s1)) (snd (eval_env W fuel root2 X d s2)).
Proof. exact state_independent. Qed.

(* ---------- C10_lexical_scope: definitions outside the closure of X are irrelevant ---------- *)
Theorem C10_lexical_scope : forall (W1 W2 : world),
  w_fault W1 = None -> w_fault W2 = None ->
  w_provs W1 = w_provs W2 -> w_check W1 = w_check W2 -> w_show W1 = w_show W2 ->
  forall (fuel : nat) (root1 root2 X : string) (d : envdef),
    (forall n, closure W1 X d n -> forall ct, w_decrypt W1 n ct = w_decrypt W2 n ct) ->
    (forall n, closure W1 X d n -> alookup n (w_envs W1) = alookup n (w_envs W2)) ->
    (forall d', alookup X (w_envs W1) = Some (LoadOk d') -> d' = d) ->
    no_context_reference d ->
    (forall n dn, closure W1 X d n -> alookup n (w_envs W1) = Some (LoadOk dn) -> no_context_reference dn) ->
    fst (eval_env W1 fuel root1 X d st0) = fst (eval_env W2 fuel root2 X d st0).
Proof. exact lexical_scope. Qed.

(* ---------- C10_imported_same_everywhere (acyclic imports) ---------- *)
(* after evaluating any root R, the table entry of every X — what every importer reads under imports.X and merges as a layer
   (C10_imports_table_is_memo) — is the value of X opened on its own, with any root and any fuel, whatever the number of
   paths to X and the listing orders.  This is exactly the statement left open in Properties/C10.v. *)
Theorem C10_imported_same_everywhere : forall (W : world) (rank : string -> nat),
  w_fault W = None ->
  (forall n d im, env_of W n = Some d -> In im (ed_imports d) -> rank (fst im) < rank n) ->
  (forall n d, env_of W n = Some d -> no_context_reference d) ->
  forall (fuel fuel' : nat) (root root' R X : string) (dR dX : envdef) (i : imp_state),
    env_of W R = Some dR -> env_of W X = Some dX -> X <> R ->
    oof (snd (eval_env W fuel root R dR st0)) = false -> oof (snd (eval_env W fuel' root' X dX st0)) = false ->
    alookup X (imps (snd (eval_env W fuel root R dR st0))) = Some i ->
    is_value i = Some (fst (eval_env W fuel' root' X dX st0)).
Proof. exact imported_same_everywhere. Qed.

Theorem C10_memo_eq_pure : C10.C10_memo_eq_pure_statement.
Proof. exact imported_same_everywhere_acyclic. Qed.

(* the same from any admissible state in the middle of a run ([Sound]: the value of some cycle-free, fuel-sufficient evaluation
   from a state whose finished entries are sound): sound values are unique *)
Theorem C10_Sound_unique : forall (W : world) (rank : string -> nat),
  w_fault W = None ->
  (forall n d im, env_of W n = Some d -> In im (ed_imports d) -> rank (fst im) < rank n) ->
  (forall n d, env_of W n = Some d -> no_context_reference d) ->
  forall n v v', Sound W rank n v -> Sound W rank n v' -> v = v'.
Proof. exact Sound_unique. Qed.

Theorem C10_sound_state_independent : forall (W : world) (rank : string -> nat),
  w_fault W = None ->
  (forall n d im, env_of W n = Some d -> In im (ed_imports d) -> rank (fst im) < rank n) ->
  (forall n d, env_of W n = Some d -> no_context_reference d) ->
  forall (f f' : nat) (r r' X : string) (d : envdef) (s s' : st),
    env_of W X = Some d ->
    alookup X (imps s) = None -> I1 s -> I2 W (Sound W rank) s -> I3 rank s (S (rank X)) -> oof s = false ->
    alookup X (imps s') = None -> I1 s' -> I2 W (Sound W rank) s' -> I3 rank s' (S (rank X)) -> oof s' = false ->
    oof (snd (eval_env W f r X d s)) = false -> oof (snd (eval_env W f' r' X d s')) = false ->
    fst (eval_env W f r X d s) = fst (eval_env W f' r' X d s').
Proof. exact sound_state_independent. Qed.

(* ---------- the boundary of the hypotheses ---------- *)
(* without acyclicity the corollary is false (P imports Q imports P): Q seen from P lacks P's layer, Q on its own has it *)
Theorem C10_imported_same_everywhere_cyclic_refuted : ~ imported_same_everywhere_statement false.
Proof. exact imported_same_everywhere_cyclic_refuted. Qed.

(* an environment that reads context.rootEnvironment depends on the root *)
Example C10_context_needed :
  fst (eval_env cx_W 20 "r1" "C" cx_d st0) <> fst (eval_env cx_W 20 "r2" "C" cx_d st0) /\ no_context_b cx_W = false.
Proof. exact context_needed. Qed.

(* a stale table entry for a member of the closure changes the value: agreement on the closure is needed *)
Example C10_agreement_needed :
  fst (eval_env ex_W 25 "" "X" ex_X stale_state) <> fst (eval_env ex_W 25 "" "X" ex_X st0).
Proof. exact agreement_needed. Qed.

(* ---------- non-vacuity: a diamond over X (reference into its import, interpolation, secret, provider) ---------- *)
Example C10_ex_hypotheses :
  w_fault ex_W = None /\ acyclic_b ex_W ex_rank = true /\ no_context_b ex_W = true
  /\ oof (snd (eval_env ex_W 40 "" "Rt" ex_Rt st0)) = false /\ oof (snd (eval_env ex_W 25 "elsewhere" "X" ex_X st0)) = false
  /\ nerr (snd (eval_env ex_W 40 "" "Rt" ex_Rt st0)) = 0%N.
Proof. exact ex_hypotheses. Qed.

Example C10_ex_same_everywhere :
  alookup "X" (imps (snd (eval_env ex_W 40 "" "Rt" ex_Rt st0))) = Some (done (fst (eval_env ex_W 25 "elsewhere" "X" ex_X st0))).
Proof. exact ex_same_everywhere. Qed.

Example C10_ex_same_everywhere_by_theorem : forall i,
  alookup "X" (imps (snd (eval_env ex_W 40 "" "Rt" ex_Rt st0))) = Some i ->
  is_value i = Some (fst (eval_env ex_W 25 "elsewhere" "X" ex_X st0)).
Proof. exact ex_same_everywhere_by_theorem. Qed.

Example C10_ex_X_value :
  option_map (x_to_json 8) (export 64 (fst (eval_env ex_W 25 "" "X" ex_X st0)))
  = Some (JObj [("a", JStr "v"); ("b", JStr "pre-v-post"); ("c", JStr "s3cr3t"); ("d", JObj [("in", JStr "v")]);
                ("e", JNum "1"); ("k", JStr "v"); ("n", JNum "1")]).
Proof. exact ex_X_value. Qed.
