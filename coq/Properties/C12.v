(* Properties/C12.v — Secret rewriting preserves the rest of the document.
   Only statements closed by [exact]; the proofs live in Proofs/Crypt*.v and Proofs/YamlTreeProofs.v.

   Setting.  A document is the yaml.v3 node tree of its text ([ynode]: kind, resolved tag, style, value, head /
   line / foot comments, children in order).  EncryptSecrets / DecryptSecrets are modelled on node trees as
   decode (unmarshalYAMLNode) -> syntax.Walk with the visitor of eval/crypt.go -> MarshalYAML
   ([encrypt_doc], [decrypt_doc]).  The encrypter / decrypter ([enc], [dec]) and strconv.ParseFloat ([pf]) are
   universally quantified.  yaml.v3's text codec is not modelled: what re-reading the written text yields is
   exercised by the correspondence check (lib/verif/props/c12.py), which compares the tree yaml.v3 reads back with
   the tree [encrypt_doc] / [decrypt_doc] computes and evaluates [src_skeleton] on the implementation's input and
   output.  [skeleton] erases exactly the argument of every fn::secret, keeping in its place the comments of the
   text scalar; everything else is kept: kind, resolved tag, value, comments, order, flow/block of collections.
   Accepted subset ([std_tree]): scalars with the core tags null/bool/int/float/str, no alias nodes.
   MarshalYAML's string case is modelled with the guard of fix 9b9d633 ([block_guard]: strings that start with a line
   break or tab and contain a line feed are written double-quoted), with the prefix list read from the source. *)
From Verif Require Import Base.Bytes Model.Envelope Model.YamlTree Model.Crypt Src.SrcEnvelope Src.SrcCrypt
     Proofs.YamlTreeProofs Proofs.CryptWalk Proofs.CryptProofs Proofs.CryptSkeleton Proofs.CryptDoc
     Proofs.CryptSem Proofs.CryptStrings Proofs.CryptExtras Proofs.CryptCodec Corr.CryptWire.

(* the constants the Go source has today, as read by srcfacts on this run *)
Definition src_params : env_params :=
  {| ep_magic := envelope_magic; ep_version := envelope_version; ep_min_len := envelope_min_len |}.
Notation src_encrypt_doc enc pf :=
  (encrypt_doc src_params crypt_fn_secret crypt_key_ciphertext crypt_new_key enc marshal_null_words marshal_quote_words pf).
Notation src_decrypt_doc dec pf :=
  (decrypt_doc src_params crypt_fn_secret crypt_key_ciphertext dec marshal_null_words marshal_quote_words pf).
Notation src_skeleton := (skeleton crypt_fn_secret crypt_key_ciphertext).

(* side conditions on the extracted constants, discharged by computation: the two names differ, the key written by
   EncryptSecrets is the key parseSecret looks for, an envelope starts with a character that yaml.v3 never resolves to
   anything but a string, and so does the key *)
Theorem C12_src_names_wf :
  String.eqb crypt_fn_secret crypt_key_ciphertext = false /\ crypt_new_key = crypt_key_ciphertext
  /\ magic_first_ok src_params = true /\ plain_is_string crypt_new_key = true.
Proof. exact (conj eq_refl (conj eq_refl (conj eq_refl eq_refl))). Qed.

(* the guard MarshalYAML has today (Src/SrcCrypt.v marshal_block_prefixes / marshal_block_contains, read by srcfacts)
   covers every string yaml.v3 cannot write as a block scalar: LF, tab, U+2028, U+2029 as first character of a text that
   contains a line feed.  Stops compiling when the guard is removed, reshaped beyond recognition, or loses a prefix. *)
Theorem C12_src_block_guard_ok : block_guard_ok = true.
Proof. exact eq_refl. Qed.

(* syntax.Walk (post-order) with the secret visitors is a top-down structural rewrite: visiting the children first
   never changes what parseSecret sees at the parent *)
Theorem C12_walk_is_structural : forall enc n,
  encrypt_tree src_params crypt_fn_secret crypt_key_ciphertext crypt_new_key enc n
  = CryptProofs.enc_tree src_params crypt_fn_secret crypt_key_ciphertext crypt_new_key enc n.
Proof. exact (fun enc => encrypt_tree_top_down src_params _ _ _ enc (proj1 C12_src_names_wf)). Qed.

(* MarshalYAML after unmarshalYAMLNode is the scalar-wise normal form [ynorm] (null spelled per the table, number-like
   strings single-quoted), on every tree *)
Theorem C12_marshal_unmarshal : forall pf y s,
  unmarshal y = ROk s -> marshal marshal_null_words marshal_quote_words pf s = ynorm marshal_null_words marshal_quote_words pf y.
Proof. exact (marshal_unmarshal marshal_null_words marshal_quote_words). Qed.

(* ---- the property, all trees of the accepted subset, all encrypters ---- *)
Theorem C12_skeleton_preserved_encrypt : forall enc pf y y',
  std_tree y = true -> src_encrypt_doc enc pf y = ROk y' -> src_skeleton y' = src_skeleton y.
Proof.
  exact (fun enc pf => encrypt_doc_skeleton src_params _ _ _ enc _ _ pf (proj1 C12_src_names_wf)
                                            (proj1 (proj2 C12_src_names_wf))).
Qed.

Theorem C12_skeleton_preserved_decrypt : forall dec pf y y',
  std_tree y = true -> src_decrypt_doc dec pf y = ROk y' -> src_skeleton y' = src_skeleton y.
Proof. exact (fun dec pf => decrypt_doc_skeleton src_params _ _ dec _ _ pf (proj1 C12_src_names_wf)). Qed.

(* the replaced scalar keeps the comments (trivia) of the one it replaces; on decryption also tag and style slot *)
Theorem C12_encrypt_keeps_trivia : forall pf ps p ct,
  comments (marshal_str marshal_quote_words pf (copy_trivia ps) (encode_ct src_params ct))
  = comments (marshal_str marshal_quote_words pf ps p).
Proof. exact (fun pf => encrypt_keeps_trivia src_params marshal_quote_words pf). Qed.

Theorem C12_decrypt_keeps_trivia : forall pf cs c p,
  comments (marshal_str marshal_quote_words pf cs p) = comments (marshal_str marshal_quote_words pf cs c)
  /\ y_tag (marshal_str marshal_quote_words pf cs p) = y_tag (marshal_str marshal_quote_words pf cs c).
Proof. exact (fun pf => decrypt_keeps_trivia marshal_quote_words pf). Qed.

(* strings stay strings.  (1) A string node is marshalled with the string tag (or none), its value unchanged, and
   single-quoted when ParseFloat accepts it or it is one of the quoting words; otherwise double-quoted (block styles
   cleared) when the guard of fix 9b9d633 fires on its style and text, and otherwise its style is kept. *)
Theorem C12_strings_stay_strings : forall pf s v,
  (y_tag (marshal_str marshal_quote_words pf s v) = "" \/ y_tag (marshal_str marshal_quote_words pf s v) = tag_str)
  /\ y_value (marshal_str marshal_quote_words pf s v) = v
  /\ (needs_quote marshal_quote_words pf v = true -> y_style (marshal_str marshal_quote_words pf s v) = st_single)
  /\ (needs_quote marshal_quote_words pf v = false ->
      y_style (marshal_str marshal_quote_words pf s v) =
      if block_guard (y_style (base_meta s)) v then force_double (y_style (base_meta s)) else y_style (base_meta s)).
Proof. exact (marshal_str_facts marshal_quote_words). Qed.

(* (1b) the guard in action and at rest: an unquoted literal-style "\nx\n" becomes double-quoted with the literal bit
   cleared; a single-quoted one and a text without leading break keep their style *)
Example C12_block_guard_example :
  y_style (marshal_str marshal_quote_words (fun _ => false) (SynYaml (mkMeta tag_str st_literal "" "" "" "")) (hx "0a780a")) = st_double
  /\ y_style (marshal_str marshal_quote_words (fun _ => false) (SynYaml (mkMeta tag_str st_single "" "" "" "")) (hx "0a780a")) = st_single
  /\ y_style (marshal_str marshal_quote_words (fun _ => false) (SynYaml (mkMeta tag_str st_literal "" "" "" "")) (hx "780a79")) = st_literal
  /\ block_unsafe_value (hx "0a780a") = true.
Proof. exact (conj eq_refl (conj eq_refl (conj eq_refl eq_refl))). Qed.

(* (1c) whatever EncryptSecrets / DecryptSecrets hand to the emitter contains no string the emitter mangles (the class of
   the former known finding C12-blockscalar is empty on their outputs): every input tree, every cipher *)
Theorem C12_encrypt_output_encodable : forall enc pf y y',
  src_encrypt_doc enc pf y = ROk y' -> codec_unsafe y' = false.
Proof.
  exact (fun enc pf => encrypt_doc_encodable src_params _ _ _ enc _ _ pf (proj1 C12_src_names_wf)
                                             (proj1 (proj2 C12_src_names_wf)) C12_src_block_guard_ok).
Qed.

Theorem C12_decrypt_output_encodable : forall dec pf y y',
  src_decrypt_doc dec pf y = ROk y' -> codec_unsafe y' = false.
Proof.
  exact (fun dec pf => decrypt_doc_encodable src_params _ _ dec _ _ pf (proj1 C12_src_names_wf) C12_src_block_guard_ok).
Qed.

(* (2) whatever a secret decrypts to ("123", "null", "true", ...), it is written on a node that carries the explicit
   string tag of the ciphertext scalar it replaces *)
Theorem C12_decrypted_text_is_string : forall pf m p,
  String.eqb (y_tag m) "" = false -> y_tag (marshal_str marshal_quote_words pf (SynYaml m) p) = tag_str.
Proof. exact (marshal_str_yaml_tagged marshal_quote_words). Qed.

(* (3) the scalars EncryptSecrets synthesises without a tag (the key `ciphertext`, the envelope) start with a character
   that yaml.v3 resolves to a string: they are read back as strings *)
Theorem C12_synthesised_scalars_are_strings : forall pf s ct,
  y_tag (resolved_scalar (marshal_str marshal_quote_words pf s (encode_ct src_params ct))) = tag_str
  /\ y_tag (resolved_scalar (marshal_str marshal_quote_words pf s crypt_new_key)) = tag_str.
Proof.
  exact (fun pf s ct =>
           conj (resolved_marshal_str marshal_quote_words pf s _
                   (magic_first_ok_plain src_params (proj1 (proj2 (proj2 C12_src_names_wf))) ct))
                (resolved_marshal_str marshal_quote_words pf s _ (proj2 (proj2 (proj2 C12_src_names_wf))))).
Qed.

(* ---- the text level: yaml.v3's codec is a collaborator ([yenc] emitter, [ydec] parser).  It is assumed to give back
   the content of a tree ONLY for the trees the rewrite itself produces from a parsed document of the accepted subset
   (and that are encodable, which C12_encrypt_output_encodable / C12_decrypt_output_encodable prove they always are).
   Nothing is assumed about synthetic trees (an untagged plain "123" is printed as 123 and read back as an integer by
   the real codec, so no statement over all trees could hold of it).  Then the rewritten TEXT parses to a tree with the
   skeleton of the input text's tree.  The assumption is what the correspondence check exercises on every case; it is
   satisfiable on non-trivial data: C12_text_level_example instantiates it. *)
Theorem C12_text_level_encrypt : forall (yenc : ynode -> option string) (ydec : string -> option ynode) enc pf,
  (forall src y n s, ydec src = Some y -> std_tree y = true -> src_encrypt_doc enc pf y = ROk n -> encodable n = true ->
                     yenc n = Some s -> exists n', ydec s = Some n' /\ content n' = content n) ->
  forall src out y,
  ydec src = Some y -> std_tree y = true ->
  rewrite_text yenc ydec (src_encrypt_doc enc pf) src = Some out ->
  exists y2, ydec out = Some y2 /\ src_skeleton y2 = src_skeleton y.
Proof.
  exact (fun yenc ydec enc pf Hc =>
           rewrite_text_skeleton crypt_fn_secret crypt_key_ciphertext yenc ydec (src_encrypt_doc enc pf) Hc
                                 (C12_skeleton_preserved_encrypt enc pf)
                                 (fun y y' H => f_equal negb (C12_encrypt_output_encodable enc pf y y' H))).
Qed.

Theorem C12_text_level_decrypt : forall (yenc : ynode -> option string) (ydec : string -> option ynode) dec pf,
  (forall src y n s, ydec src = Some y -> std_tree y = true -> src_decrypt_doc dec pf y = ROk n -> encodable n = true ->
                     yenc n = Some s -> exists n', ydec s = Some n' /\ content n' = content n) ->
  forall src out y,
  ydec src = Some y -> std_tree y = true ->
  rewrite_text yenc ydec (src_decrypt_doc dec pf) src = Some out ->
  exists y2, ydec out = Some y2 /\ src_skeleton y2 = src_skeleton y.
Proof.
  exact (fun yenc ydec dec pf Hc =>
           rewrite_text_skeleton crypt_fn_secret crypt_key_ciphertext yenc ydec (src_decrypt_doc dec pf) Hc
                                 (C12_skeleton_preserved_decrypt dec pf)
                                 (fun y y' H => f_equal negb (C12_decrypt_output_encodable dec pf y y' H))).
Qed.

(* the skeleton is a function of the content: equal content (what the correspondence compares) gives equal skeleton *)
Theorem C12_skeleton_of_content : forall y y', content y' = content y -> src_skeleton y' = src_skeleton y.
Proof. exact (skeleton_of_content crypt_fn_secret crypt_key_ciphertext). Qed.

(* ---- "loads without new diagnostics", at the level of one secret: what DecryptSecrets writes for a ciphertext that
   opens to p is `fn::secret: p`, which the expression parser accepts iff p has no interpolation.  Partial statement
   and refutation (known finding C12-interp: the class is "the plaintext contains `${`", [unescape p = None]). *)
Notation src_sem_parse := (sem_parse ast_fn_secret ast_key_ciphertext ast_plain_literal ast_key_nil_safe).

Theorem C12_decrypted_secret_loads_partial : forall os k cs p t,
  String.eqb (snd k) ast_fn_secret = true -> unescape p = Some t ->
  sem_accepts (src_sem_parse (SObj os [(k, SStr cs p)])) = true.
Proof.
  exact (fun os k cs p t Ek Eu =>
           eq_trans (f_equal sem_accepts
                       (eq_trans (sem_parse_plain_node ast_fn_secret ast_key_ciphertext ast_plain_literal ast_key_nil_safe os k cs p Ek)
                                 (f_equal (fun o => match o with
                                                    | Some t => SemPlain (if ast_plain_literal then p else t)
                                                    | None => SemError
                                                    end) Eu)))
                    eq_refl).
Qed.

Theorem C12_decrypted_secret_loads_refuted : forall os k cs p,
  String.eqb (snd k) ast_fn_secret = true -> unescape p = None ->
  src_sem_parse (SObj os [(k, SStr cs p)]) = SemError.
Proof.
  exact (fun os k cs p Ek Eu =>
           eq_trans (sem_parse_plain_node ast_fn_secret ast_key_ciphertext ast_plain_literal ast_key_nil_safe os k cs p Ek)
                    (f_equal (fun o => match o with
                                       | Some t => SemPlain (if ast_plain_literal then p else t)
                                       | None => SemError
                                       end) Eu)).
Qed.

(* outside the accepted subset the statement fails for the faithful model (and for the code): a timestamp scalar is a
   string for esc and is written back with the string tag *)
Theorem C12_outside_subset_refuted :
  exists y y', std_tree y = false
               /\ src_encrypt_doc (fun _ => None) (fun _ => false) y = ROk y'
               /\ ynode_eqb (src_skeleton y') (src_skeleton y) = false.
Proof.
  exact (ex_intro _ ts_doc
           (match skeleton_changes_witness src_params crypt_fn_secret crypt_key_ciphertext crypt_new_key (fun _ => None)
                    marshal_null_words marshal_quote_words (fun _ => false) ts_doc eq_refl with
            | ex_intro _ y' H => ex_intro _ y' (conj eq_refl H)
            end)).
Qed.

(* non-vacuity: a document with comments, a number-like string, a null and two secrets (one in a flow mapping);
   encrypting it with the toy cipher of the correspondence check changes the tree and keeps the skeleton *)
Definition ex_meta (tag : string) (style : N) (v h l : string) : ymeta := mkMeta tag style v h l "".
Definition ex_doc : ynode :=
  YMap (ex_meta "!!map" 0 "" "" "")
    [(YScalar (ex_meta "!!str" 0 "values" "# head" ""),
      YMap (ex_meta "!!map" 0 "" "" "")
        [(YScalar (ex_meta "!!str" 0 "n" "" ""), YScalar (ex_meta "!!str" 2 "123" "" "# stays a string"));
         (YScalar (ex_meta "!!str" 0 "e" "" ""), YScalar (ex_meta "!!null" 0 "" "" ""));
         (YScalar (ex_meta "!!str" 0 "s" "# about s" ""),
          YMap (ex_meta "!!map" 0 "" "" "")
            [(YScalar (ex_meta "!!str" 0 "fn::secret" "" ""), YScalar (ex_meta "!!str" 0 "hunter2" "" "# rotate me"))]);
         (YScalar (ex_meta "!!str" 0 "f" "" ""),
          YSeq (ex_meta "!!seq" 32 "" "" "")
            [YMap (ex_meta "!!map" 32 "" "" "")
               [(YScalar (ex_meta "!!str" 0 "fn::secret" "" ""), YScalar (ex_meta "!!str" 4 "a$$b" "" ""))]])])].

Example C12_example :
  std_tree ex_doc = true
  /\ match m_encrypt_doc 90 1 ex_doc with
     | ROk y' => negb (ynode_eqb (content y') (content ex_doc)) && ynode_eqb (src_skeleton y') (src_skeleton ex_doc)
                 && forallb (fun s : string + string => match s with inr _ => true | inl _ => false end) (m_ysecrets y')
     | RErr _ => false
     end = true.
Proof. exact (conj eq_refl eq_refl). Qed.

(* ---- the text level instantiated: a toy codec (a book of two texts: the example document and the re-read form of its
   encryption with the toy cipher).  Every book is a codec in the sense assumed above (book_codec_round_trip, on all
   trees), [yenc] is NOT constantly None on the image of the rewrite, and the theorem yields a concrete output text whose
   tree differs from the input's and has its skeleton. *)
Definition ex_out : ynode :=
  match m_encrypt_doc 90 1 ex_doc with ROk y' => resolved y' | RErr _ => ex_doc end.
Definition ex_book : book := [("doc.yaml", ex_doc); ("doc.enc.yaml", ex_out)].

Theorem C12_book_is_a_codec : forall (b : book) n s,
  book_enc b n = Some s -> exists n', book_dec b s = Some n' /\ content n' = content n.
Proof. exact book_codec_round_trip. Qed.

Example C12_text_level_example :
  rewrite_text (book_enc ex_book) (book_dec ex_book) (m_encrypt_doc 90 1) "doc.yaml" = Some "doc.enc.yaml"
  /\ (exists y2, book_dec ex_book "doc.enc.yaml" = Some y2 /\ src_skeleton y2 = src_skeleton ex_doc)
  /\ ynode_eqb ex_out ex_doc = false.
Proof.
  exact (conj eq_refl
          (conj (C12_text_level_encrypt (book_enc ex_book) (book_dec ex_book) (toy_enc 90 1) no_pf
                   (fun src y n s _ _ _ _ H => book_codec_round_trip ex_book n s H)
                   "doc.yaml" "doc.enc.yaml" ex_doc eq_refl eq_refl eq_refl)
                eq_refl)).
Qed.
