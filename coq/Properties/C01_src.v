(* Properties/C01_src.v — side conditions of C01 on the SOURCE of the evaluator: the behaviour tables that
   harness/cmd/srcfacts/evalcore.go reads out of eval/value.go, eval/eval.go, eval/crypt.go and environment.go on every run
   (coq/Src/SrcEval.v) are the ones the models Model/Chain.v / Model/Eval.v were written against (Proofs/EvalSrc.v, where
   each table is listed next to the model definition it is the source of).  What C01 rests on: merge is chain append (value.merge, mergedSchema), the lazy merged view (property, keys, export), the copy-then-merge fold over the imports.
   Statements only, closed by [exact]; decided by computation. *)
From Verif Require Import Base.Bytes Src.SrcEval Proofs.EvalSrc Proofs.EvalSrcMerge Proofs.EvalSrcChainView Proofs.EvalSrcImport Proofs.EvalSrcDeclare.

Theorem C01_src_merge_is_append : eval_src_merge_ok = true.
Proof. exact eval_src_merge_ok_true. Qed.

Theorem C01_src_merged_view : eval_src_chain_view_ok = true.
Proof. exact eval_src_chain_view_ok_true. Qed.

Theorem C01_src_import_fold : eval_src_import_ok = true.
Proof. exact eval_src_import_ok_true. Qed.

Theorem C01_src_declared_over_base : eval_src_declare_ok = true.
Proof. exact eval_src_declare_ok_true. Qed.
