(* Properties/C18.v — Evaluation results survive the JSON API unchanged.
   Only statements closed by [exact]; the proofs live in Proofs/ApiJson*.v.

   Vocabulary (Model/ApiJson.v): [gval] are Go values (nil and empty collections are different values, a
   json.Number is its text, interfaces carry their dynamic type), [json] are JSON trees (numbers as text,
   object entries in order); [marshal]/[unmarshal] model json.Marshal / json.Unmarshal-into-a-zero-value for
   the struct tables [src_tables] that srcfacts read from value.go, expr.go, environment.go and
   schema/schema.go on this run.  [n] is fuel: both functions return [Fuel], never [Ok], when it is too
   small, and [clean]/[wellformed] are false then, so no statement below is about a truncated computation.
   [top] = a plain json.Unmarshal call (no UseNumber).
   [wellformed] = typed according to the tables, maps key-sorted, ints in range, boolean schemas carry nothing
   else, slices/maps stored in an interface are non-nil (the evaluator builds them with make).
   The known-finding classes (decidable, disjoint causes; [in_known_class] is their union):
     kf_nonfinite      a json.Number whose text is not a JSON number ("+Inf", "NaN", "-Inf" from YAML .inf/.nan)
     kf_any_number     a number stored in an `any` field whose decoder does not call UseNumber (Expr.Literal)
     kf_empty_omitted  a non-nil empty slice/map in an omitempty field (Expr.List/Object/KeyRanges of [] and {})
     kf_non_utf8       a string or map key that is not valid UTF-8 (fn::fromBase64 output)
   [clean] = well-formed and in none of them. *)
From Verif Require Import Base.Bytes Model.ApiJson Src.SrcApiJson
  Proofs.ApiJsonBase Proofs.ApiJsonProofs Proofs.ApiJsonSrc.
Open Scope string_scope.

(* ---- side conditions tying the extracted tables to what the proofs assume (by computation) ---- *)
(* JSON names unique per struct, Go names unique, Value has its `any` field and the raw struct decoded by
   Value.UnmarshalJSON has exactly Value's tags, Schema has the two `json:"-"` booleans and
   Schema.MarshalJSON maps Never to false before Always to true, custom methods are the recognised ones *)
Theorem C18_src_tables_wf : src_shape_ok src_tables value_raw_fields schema_marshal_cases = true.
Proof. exact src_shape. Qed.

Theorem C18_src_tables_ok : tables_ok src_tables = true.
Proof. exact src_tables_ok. Qed.

(* ---- round trip, for every type of the tables at once ---- *)
Theorem C18_roundtrip : forall n c t v,
  clean src_tables n c t v = true ->
  exists j, marshal src_tables n t v = Ok j /\ unmarshal src_tables n c t j = Ok v.
Proof. exact (roundtrip_clean src_tables src_tables_ok). Qed.

(* the same with the excluded classes spelled out: well-formed and outside every known-finding class *)
Theorem C18_value_roundtrip : forall n v,
  wellformed src_tables n top (TNamed "Value") v = true ->
  in_known_class src_tables n top (TNamed "Value") v = false ->
  exists j, marshal src_tables n (TNamed "Value") v = Ok j
            /\ unmarshal src_tables n top (TNamed "Value") j = Ok v.
Proof.
  exact (fun n v W K => roundtrip_clean src_tables src_tables_ok n top _ v (in_known_class_false _ _ _ _ _ W K)).
Qed.

Theorem C18_schema_roundtrip : forall n v,
  wellformed src_tables n top (TNamed "Schema") v = true ->
  in_known_class src_tables n top (TNamed "Schema") v = false ->
  exists j, marshal src_tables n (TNamed "Schema") v = Ok j
            /\ unmarshal src_tables n top (TNamed "Schema") j = Ok v.
Proof.
  exact (fun n v W K => roundtrip_clean src_tables src_tables_ok n top _ v (in_known_class_false _ _ _ _ _ W K)).
Qed.

Theorem C18_expr_roundtrip_partial : forall n v,
  wellformed src_tables n top (TNamed "Expr") v = true ->
  in_known_class src_tables n top (TNamed "Expr") v = false ->
  exists j, marshal src_tables n (TNamed "Expr") v = Ok j
            /\ unmarshal src_tables n top (TNamed "Expr") j = Ok v.
Proof.
  exact (fun n v W K => roundtrip_clean src_tables src_tables_ok n top _ v (in_known_class_false _ _ _ _ _ W K)).
Qed.

Theorem C18_environment_roundtrip_partial : forall n v,
  wellformed src_tables n top (TNamed "Environment") v = true ->
  in_known_class src_tables n top (TNamed "Environment") v = false ->
  exists j, marshal src_tables n (TNamed "Environment") v = Ok j
            /\ unmarshal src_tables n top (TNamed "Environment") j = Ok v.
Proof.
  exact (fun n v W K => roundtrip_clean src_tables src_tables_ok n top _ v (in_known_class_false _ _ _ _ _ W K)).
Qed.

(* the four classes are exactly the gap between well-formed and clean *)
Theorem C18_known_classes_cover : forall n c t v,
  wellformed src_tables n c t v = true ->
  kf_nonfinite src_tables n c t v = false -> kf_any_number src_tables n c t v = false ->
  kf_empty_omitted src_tables n c t v = false -> kf_non_utf8 src_tables n c t v = false ->
  clean src_tables n c t v = true.
Proof. exact (known_classes_cover src_tables). Qed.

(* serialisability: json.Marshal can fail only because of class kf_nonfinite (whatever else is wrong) *)
Theorem C18_serialisable : forall p, p_number p = false -> forall n c t v,
  okp src_tables p n c t v = true -> exists j, marshal src_tables n t v = Ok j.
Proof. exact (serialisable src_tables). Qed.

(* ---- distinctness ---- *)
(* two clean values with the same JSON are the same value: nothing is conflated *)
Theorem C18_marshal_injective : forall n c t v1 v2 j,
  clean src_tables n c t v1 = true -> clean src_tables n c t v2 = true ->
  marshal src_tables n t v1 = Ok j -> marshal src_tables n t v2 = Ok j -> v1 = v2.
Proof. exact (marshal_injective src_tables src_tables_ok). Qed.

(* null(=absent), false, 0, "", [] and {} as the payload of a Value, under every secret/unknown combination:
   all clean, all come back equal, their six JSON documents are pairwise different *)
Theorem C18_distinct_payloads : forall secret unknown, distinct_payloads_ok secret unknown = true.
Proof. exact distinct_payloads. Qed.

(* absence and null mean the same Value when read; a nil Value is written without "value" *)
Theorem C18_absent_is_null :
  exists tr, marshal src_tables 12 (TNamed "Trace") trace0 = Ok tr
  /\ unmarshal src_tables 12 top (TNamed "Value") (JObj [("trace", tr)]) = Ok (value GNil false false trace0)
  /\ unmarshal src_tables 12 top (TNamed "Value") (JObj [("value", JNull); ("trace", tr)]) = Ok (value GNil false false trace0)
  /\ marshal src_tables 12 (TNamed "Value") (value GNil false false trace0) = Ok (JObj [("trace", tr)]).
Proof. exact absent_is_null. Qed.

(* ---- leaf facts the round trip rests on ---- *)
Theorem C18_utf8_identity : forall s, valid_utf8 s = true -> sanitize s = s.
Proof. exact sanitize_valid. Qed.

Theorem C18_int_text_roundtrip : forall z, int64_ok z = true -> parse_int (print_Z z) = Some z.
Proof. exact parse_print. Qed.

Theorem C18_sorted_map_rebuild : forall l : list (string * gval), sorted_keys l = true -> map_of_entries l = l.
Proof. exact map_of_entries_sorted. Qed.

(* ---- the full statement is refuted on today's code, one witness per known finding ---- *)
(* Value{json.Number("+Inf")} (YAML .inf): json.Marshal fails *)
Theorem C18_nonfinite_refuted :
  wellformed src_tables 12 top (TNamed "Value") w_nonfinite = true
  /\ kf_nonfinite src_tables 12 top (TNamed "Value") w_nonfinite = true
  /\ marshal src_tables 12 (TNamed "Value") w_nonfinite = Err.
Proof. exact nonfinite_refuted. Qed.

(* Expr{Literal: json.Number("12345678901234567890")}: read back as a float64 — as long as Expr has no decoder
   that calls UseNumber (the hypothesis is computed from the source; it is true today) *)
Theorem C18_expr_number_refuted :
  keeps_numbers src_tables "Expr" = false ->
  wellformed src_tables 12 top (TNamed "Expr") w_expr_number = true
  /\ kf_any_number src_tables 12 top (TNamed "Expr") w_expr_number = true
  /\ exists j v', marshal src_tables 12 (TNamed "Expr") w_expr_number = Ok j
                  /\ unmarshal src_tables 12 top (TNamed "Expr") j = Ok v'
                  /\ gval_eqb true w_expr_number v' = false.
Proof. exact expr_number_refuted. Qed.

(* Expr{List: []Expr{}} (the literal []): read back with List == nil, i.e. as a null literal *)
Theorem C18_empty_list_refuted :
  wellformed src_tables 12 top (TNamed "Expr") w_empty_list = true
  /\ kf_empty_omitted src_tables 12 top (TNamed "Expr") w_empty_list = true
  /\ exists j, marshal src_tables 12 (TNamed "Expr") w_empty_list = Ok j
               /\ unmarshal src_tables 12 top (TNamed "Expr") j = Ok (mk "Expr" [("Range", rng "env"); ("List", GNil)]).
Proof. exact empty_list_refuted. Qed.

(* Value{"\xff"}: read back as U+FFFD *)
Theorem C18_non_utf8_refuted :
  wellformed src_tables 12 top (TNamed "Value") w_non_utf8 = true
  /\ kf_non_utf8 src_tables 12 top (TNamed "Value") w_non_utf8 = true
  /\ exists j, marshal src_tables 12 (TNamed "Value") w_non_utf8 = Ok j
               /\ unmarshal src_tables 12 top (TNamed "Value") j = Ok (value (vstr (hx "efbfbd")) false false trace0).
Proof. exact non_utf8_refuted. Qed.

(* ---- non-vacuity: the hypotheses hold on non-trivial data ---- *)
Example C18_example_value : clean src_tables 20 top (TNamed "Value") sample_value = true
  /\ roundtrips src_tables 20 (TNamed "Value") sample_value = true.
Proof. exact (conj sample_value_clean eq_refl). Qed.

Example C18_example_schema : clean src_tables 20 top (TNamed "Schema") sample_schema = true
  /\ roundtrips src_tables 20 (TNamed "Schema") sample_schema = true.
Proof. exact (conj sample_schema_clean eq_refl). Qed.

Example C18_example_expr : clean src_tables 20 top (TNamed "Expr") sample_expr = true.
Proof. exact sample_expr_clean. Qed.

Example C18_example_environment : clean src_tables 24 top (TNamed "Environment") sample_env = true
  /\ roundtrips src_tables 24 (TNamed "Environment") sample_env = true.
Proof. exact (conj sample_env_clean eq_refl). Qed.
