(* Properties/C18.v — Evaluation results survive the JSON API unchanged.
   Only statements closed by [exact]; the proofs live in Proofs/ApiJson*.v.

   Vocabulary (Model/ApiJson.v): [gval] are Go values (nil and empty collections are different values, a
   json.Number is its text, interfaces carry their dynamic type), [json] are JSON trees (numbers as text,
   object entries in order); [marshal]/[unmarshal] model json.Marshal / json.Unmarshal-into-a-zero-value for
   the struct tables [src_tables] that srcfacts read from value.go, expr.go, environment.go and
   schema/schema.go on this run.  [n] is fuel: both functions return [Fuel], never [Ok], when it is too
   small, and [clean]/[tidy]/[wellformed] are false then, so no statement below is about a truncated computation.
   [top] = a plain json.Unmarshal call (no UseNumber).
   [wellformed] = typed according to the tables, maps key-sorted, ints in range, boolean schemas carry nothing
   else, slices/maps stored in an interface are non-nil (the evaluator builds them with make).
   The known-finding classes (decidable, one per cause):
     kf_nonfinite      a json.Number whose text is not a JSON number ("+Inf", "NaN", "-Inf" from YAML .inf/.nan)
     kf_any_number     a number stored in an `any` field whose decoder does not call UseNumber (Expr.Literal before
                       the repair: Expr now has an UnmarshalJSON that calls UseNumber, see C18_expr_number_repaired)
     kf_empty_omitted  the WIDE class: a non-nil empty slice/map in any omitempty field.  The tables have 18 such
                       fields (C18_empty_fields_count); json.Marshal drops the field and it comes back nil
     kf_empty_lossy    the part of it that LOSES INFORMATION: the 5 fields [lossy_fields] in which being nil is a
                       value of its own (Expr.List/Object/Interpolate/Symbol select the alternative of the Expr
                       union, Interpolation.Value tells a reference from text).  In the other 13 fields the code
                       only takes len, ranges, indexes or looks up, which cannot tell nil from empty
     kf_non_utf8       a string or map key that is not valid UTF-8 (fn::fromBase64 output)
   [in_known_class] = nonfinite, any_number, empty_omitted (wide), non_utf8;
   [in_lossy_class] = nonfinite, any_number, empty_lossy (narrow), non_utf8.
   [clean] = well-formed and outside [in_known_class]: comes back identical (C18_roundtrip).
   [tidy]  = well-formed and outside [in_lossy_class] (C18_lossy_classes_cover): clean except for non-nil empty
             collections in the 13 harmless fields.
   [nilify n t v] = v with every non-nil empty slice/map held by an omitempty field replaced by nil, at any depth.
   A tidy value comes back as [nilify v] (C18_roundtrip_tidy), which is clean (C18_nilify_clean); nilify is the
   identity on clean values (C18_nilify_id), and v and nilify v have the same JSON (C18_nilify_same_json). *)
From Verif Require Import Base.Bytes Model.ApiJson Src.SrcApiJson
  Proofs.ApiJsonBase Proofs.ApiJsonProofs Proofs.ApiJsonTidy Proofs.ApiJsonSrc.
Open Scope string_scope.

(* ---- side conditions tying the extracted tables to what the proofs assume (by computation) ---- *)
(* JSON names unique per struct, Go names unique, Value has its `any` field and the raw struct decoded by
   Value.UnmarshalJSON has exactly Value's tags, Schema has the two `json:"-"` booleans and
   Schema.MarshalJSON maps Never to false before Always to true, custom methods are the recognised ones *)
Theorem C18_src_tables_wf : src_shape_ok src_tables value_raw_fields schema_marshal_cases = true.
Proof. exact src_shape. Qed.

Theorem C18_src_tables_ok : tables_ok src_tables = true.
Proof. exact src_tables_ok. Qed.

(* ---- round trip, for every type of the tables at once ---- *)
Theorem C18_roundtrip : forall n c t v,
  clean src_tables n c t v = true ->
  exists j, marshal src_tables n t v = Ok j /\ unmarshal src_tables n c t j = Ok v.
Proof. exact (roundtrip_clean src_tables src_tables_ok). Qed.

(* the same with the excluded classes spelled out: well-formed and outside every known-finding class *)
Theorem C18_value_roundtrip : forall n v,
  wellformed src_tables n top (TNamed "Value") v = true ->
  in_known_class src_tables n top (TNamed "Value") v = false ->
  exists j, marshal src_tables n (TNamed "Value") v = Ok j
            /\ unmarshal src_tables n top (TNamed "Value") j = Ok v.
Proof.
  exact (fun n v W K => roundtrip_clean src_tables src_tables_ok n top _ v (in_known_class_false _ _ _ _ _ W K)).
Qed.

Theorem C18_schema_roundtrip : forall n v,
  wellformed src_tables n top (TNamed "Schema") v = true ->
  in_known_class src_tables n top (TNamed "Schema") v = false ->
  exists j, marshal src_tables n (TNamed "Schema") v = Ok j
            /\ unmarshal src_tables n top (TNamed "Schema") j = Ok v.
Proof.
  exact (fun n v W K => roundtrip_clean src_tables src_tables_ok n top _ v (in_known_class_false _ _ _ _ _ W K)).
Qed.

(* ---- round trip up to nil-for-empty where it does not matter ---- *)
(* a tidy value comes back with its harmless non-nil empty collections turned into nil, and nothing else changed *)
Theorem C18_roundtrip_tidy : forall n c t v,
  tidy src_tables n c t v = true ->
  exists j, marshal src_tables n t v = Ok j /\ unmarshal src_tables n c t j = Ok (nilify src_tables n t v).
Proof. exact (roundtrip_tidy src_tables src_tables_ok). Qed.

(* what comes back is clean ... *)
Theorem C18_nilify_clean : forall n c t v,
  tidy src_tables n c t v = true -> clean src_tables n c t (nilify src_tables n t v) = true.
Proof. exact (nilify_clean src_tables). Qed.

(* ... is v itself when v is clean ... *)
Theorem C18_nilify_id : forall n c t v, clean src_tables n c t v = true -> nilify src_tables n t v = v.
Proof. exact (nilify_id src_tables). Qed.

(* ... and has the JSON document of v (json.Marshal drops an omitted empty collection, nil or not) *)
Theorem C18_nilify_same_json : forall p n c t v,
  okp src_tables p n c t v = true -> marshal src_tables n t (nilify src_tables n t v) = marshal src_tables n t v.
Proof. exact (nilify_marshal src_tables). Qed.

(* clean values are tidy, tidy values are well-formed *)
Theorem C18_clean_tidy : forall n c t v, clean src_tables n c t v = true -> tidy src_tables n c t v = true.
Proof. exact (clean_tidy src_tables). Qed.

Theorem C18_tidy_wellformed : forall n c t v, tidy src_tables n c t v = true -> wellformed src_tables n c t v = true.
Proof. exact (tidy_wellformed src_tables). Qed.

(* with the excluded classes spelled out, the narrow ones: well-formed and outside every class that loses
   information *)
Theorem C18_expr_roundtrip_partial : forall n v,
  wellformed src_tables n top (TNamed "Expr") v = true ->
  in_lossy_class src_tables n top (TNamed "Expr") v = false ->
  exists j, marshal src_tables n (TNamed "Expr") v = Ok j
            /\ unmarshal src_tables n top (TNamed "Expr") j = Ok (nilify src_tables n (TNamed "Expr") v).
Proof. exact (fun n v W K => roundtrip_lossless src_tables src_tables_ok n top _ v W K). Qed.

Theorem C18_environment_roundtrip_partial : forall n v,
  wellformed src_tables n top (TNamed "Environment") v = true ->
  in_lossy_class src_tables n top (TNamed "Environment") v = false ->
  exists j, marshal src_tables n (TNamed "Environment") v = Ok j
            /\ unmarshal src_tables n top (TNamed "Environment") j = Ok (nilify src_tables n (TNamed "Environment") v).
Proof. exact (fun n v W K => roundtrip_lossless src_tables src_tables_ok n top _ v W K). Qed.

Theorem C18_value_roundtrip_partial : forall n v,
  wellformed src_tables n top (TNamed "Value") v = true ->
  in_lossy_class src_tables n top (TNamed "Value") v = false ->
  exists j, marshal src_tables n (TNamed "Value") v = Ok j
            /\ unmarshal src_tables n top (TNamed "Value") j = Ok (nilify src_tables n (TNamed "Value") v).
Proof. exact (fun n v W K => roundtrip_lossless src_tables src_tables_ok n top _ v W K). Qed.

Theorem C18_schema_roundtrip_partial : forall n v,
  wellformed src_tables n top (TNamed "Schema") v = true ->
  in_lossy_class src_tables n top (TNamed "Schema") v = false ->
  exists j, marshal src_tables n (TNamed "Schema") v = Ok j
            /\ unmarshal src_tables n top (TNamed "Schema") j = Ok (nilify src_tables n (TNamed "Schema") v).
Proof. exact (fun n v W K => roundtrip_lossless src_tables src_tables_ok n top _ v W K). Qed.

(* the four classes (with the wide empty class) are exactly the gap between well-formed and clean *)
Theorem C18_known_classes_cover : forall n c t v,
  wellformed src_tables n c t v = true ->
  kf_nonfinite src_tables n c t v = false -> kf_any_number src_tables n c t v = false ->
  kf_empty_omitted src_tables n c t v = false -> kf_non_utf8 src_tables n c t v = false ->
  clean src_tables n c t v = true.
Proof. exact (known_classes_cover src_tables). Qed.

(* the four classes that lose information (with the narrow empty class) are exactly the gap between well-formed
   and tidy *)
Theorem C18_lossy_classes_cover : forall n c t v,
  wellformed src_tables n c t v = true ->
  kf_nonfinite src_tables n c t v = false -> kf_any_number src_tables n c t v = false ->
  kf_empty_lossy src_tables n c t v = false -> kf_non_utf8 src_tables n c t v = false ->
  tidy src_tables n c t v = true.
Proof. exact (lossy_classes_cover src_tables). Qed.

(* the omitempty slice/map fields of the tables, as (struct, Go field): there are 18; exactly 5 of them are
   [lossy_field]s; and the hard-coded list [lossy_fields] (5 entries) names only fields of that list, so it cannot
   drift from the tables unnoticed *)
Theorem C18_empty_fields_count :
  length (omitempty_collections src_tables) = 18%nat
  /\ length (filter (fun q => lossy_field (fst q) (snd q)) (omitempty_collections src_tables)) = 5%nat
  /\ length lossy_fields = 5%nat
  /\ forallb (fun q => existsb (pair_eqb q) (omitempty_collections src_tables)) lossy_fields = true.
Proof. exact empty_fields_count. Qed.

(* serialisability: json.Marshal can fail only because of class kf_nonfinite (whatever else is wrong) *)
Theorem C18_serialisable : forall p, p_number p = false -> forall n c t v,
  okp src_tables p n c t v = true -> exists j, marshal src_tables n t v = Ok j.
Proof. exact (serialisable src_tables). Qed.

(* ---- distinctness ---- *)
(* two clean values with the same JSON are the same value: nothing is conflated *)
Theorem C18_marshal_injective : forall n c t v1 v2 j,
  clean src_tables n c t v1 = true -> clean src_tables n c t v2 = true ->
  marshal src_tables n t v1 = Ok j -> marshal src_tables n t v2 = Ok j -> v1 = v2.
Proof. exact (marshal_injective src_tables src_tables_ok). Qed.

(* null(=absent), false, 0, "", [] and {} as the payload of a Value, under every secret/unknown combination:
   all clean, all come back equal, their six JSON documents are pairwise different *)
Theorem C18_distinct_payloads : forall secret unknown, distinct_payloads_ok secret unknown = true.
Proof. exact distinct_payloads. Qed.

(* absence and null mean the same Value when read; a nil Value is written without "value" *)
Theorem C18_absent_is_null :
  exists tr, marshal src_tables 12 (TNamed "Trace") trace0 = Ok tr
  /\ unmarshal src_tables 12 top (TNamed "Value") (JObj [("trace", tr)]) = Ok (value GNil false false trace0)
  /\ unmarshal src_tables 12 top (TNamed "Value") (JObj [("value", JNull); ("trace", tr)]) = Ok (value GNil false false trace0)
  /\ marshal src_tables 12 (TNamed "Value") (value GNil false false trace0) = Ok (JObj [("trace", tr)]).
Proof. exact absent_is_null. Qed.

(* ---- leaf facts the round trip rests on ---- *)
Theorem C18_utf8_identity : forall s, valid_utf8 s = true -> sanitize s = s.
Proof. exact sanitize_valid. Qed.

Theorem C18_int_text_roundtrip : forall z, int64_ok z = true -> parse_int (print_Z z) = Some z.
Proof. exact parse_print. Qed.

Theorem C18_sorted_map_rebuild : forall l : list (string * gval), sorted_keys l = true -> map_of_entries l = l.
Proof. exact map_of_entries_sorted. Qed.

(* ---- the full statement is refuted on today's code, one witness per known finding ---- *)
(* Value{json.Number("+Inf")} (YAML .inf): json.Marshal fails *)
Theorem C18_nonfinite_refuted :
  wellformed src_tables 12 top (TNamed "Value") w_nonfinite = true
  /\ kf_nonfinite src_tables 12 top (TNamed "Value") w_nonfinite = true
  /\ marshal src_tables 12 (TNamed "Value") w_nonfinite = Err.
Proof. exact nonfinite_refuted. Qed.

(* Expr{Literal: json.Number("12345678901234567890")} was read back as a float64.  Repaired in the source of this
   run: Expr's decoder calls UseNumber (computed from the source), and the witness is clean and round-trips.
   This statement stops compiling if the repair is reverted. *)
Theorem C18_expr_number_repaired :
  keeps_numbers src_tables "Expr" = true
  /\ clean src_tables 12 top (TNamed "Expr") w_expr_number = true
  /\ roundtrips src_tables 12 (TNamed "Expr") w_expr_number = true.
Proof. exact expr_number_repaired. Qed.

(* the finding itself, on the tables of this run with Expr's custom decoder removed ([tables_without_usenumber],
   i.e. the code before the repair): the same value is well-formed, in kf_any_number, and comes back different
   even when any float64 is allowed to match any float64 *)
Theorem C18_expr_number_refuted_without_usenumber :
  keeps_numbers tables_without_usenumber "Expr" = false
  /\ wellformed tables_without_usenumber 12 top (TNamed "Expr") w_expr_number = true
  /\ kf_any_number tables_without_usenumber 12 top (TNamed "Expr") w_expr_number = true
  /\ exists j v', marshal tables_without_usenumber 12 (TNamed "Expr") w_expr_number = Ok j
                  /\ unmarshal tables_without_usenumber 12 top (TNamed "Expr") j = Ok v'
                  /\ gval_eqb true w_expr_number v' = false.
Proof. exact expr_number_refuted_without_usenumber. Qed.

(* Expr{List: []Expr{}} (the literal []): read back with List == nil, i.e. as a null literal; in the wide and in
   the narrow empty class *)
Theorem C18_empty_list_refuted :
  wellformed src_tables 12 top (TNamed "Expr") w_empty_list = true
  /\ kf_empty_omitted src_tables 12 top (TNamed "Expr") w_empty_list = true
  /\ kf_empty_lossy src_tables 12 top (TNamed "Expr") w_empty_list = true
  /\ exists j, marshal src_tables 12 (TNamed "Expr") w_empty_list = Ok j
               /\ unmarshal src_tables 12 top (TNamed "Expr") j = Ok (mk "Expr" [("Range", rng "env"); ("List", GNil)]).
Proof. exact empty_list_refuted. Qed.

(* Value{"\xff"}: read back as U+FFFD *)
Theorem C18_non_utf8_refuted :
  wellformed src_tables 12 top (TNamed "Value") w_non_utf8 = true
  /\ kf_non_utf8 src_tables 12 top (TNamed "Value") w_non_utf8 = true
  /\ exists j, marshal src_tables 12 (TNamed "Value") w_non_utf8 = Ok j
               /\ unmarshal src_tables 12 top (TNamed "Value") j = Ok (value (vstr (hx "efbfbd")) false false trace0).
Proof. exact non_utf8_refuted. Qed.

(* ---- non-vacuity: the hypotheses hold on non-trivial data ---- *)
Example C18_example_value : clean src_tables 20 top (TNamed "Value") sample_value = true
  /\ roundtrips src_tables 20 (TNamed "Value") sample_value = true.
Proof. exact (conj sample_value_clean eq_refl). Qed.

Example C18_example_schema : clean src_tables 20 top (TNamed "Schema") sample_schema = true
  /\ roundtrips src_tables 20 (TNamed "Schema") sample_schema = true.
Proof. exact (conj sample_schema_clean eq_refl). Qed.

Example C18_example_expr : clean src_tables 20 top (TNamed "Expr") sample_expr = true.
Proof. exact sample_expr_clean. Qed.

Example C18_example_environment : clean src_tables 24 top (TNamed "Environment") sample_env = true
  /\ roundtrips src_tables 24 (TNamed "Environment") sample_env = true.
Proof. exact (conj sample_env_clean eq_refl). Qed.

(* an Environment with Properties = {} (non-nil), an Expr with KeyRanges = {} and a Schema with required = [] and
   properties = {}: tidy but not clean, in the wide empty class and not in the narrow one, comes back as its nilified
   form [harmless_env_nil], which differs from it *)
Example C18_example_harmless_empties :
  tidy src_tables 12 top (TNamed "Environment") harmless_env = true
  /\ clean src_tables 12 top (TNamed "Environment") harmless_env = false
  /\ kf_empty_omitted src_tables 12 top (TNamed "Environment") harmless_env = true
  /\ kf_empty_lossy src_tables 12 top (TNamed "Environment") harmless_env = false
  /\ in_lossy_class src_tables 12 top (TNamed "Environment") harmless_env = false
  /\ (exists j, marshal src_tables 12 (TNamed "Environment") harmless_env = Ok j
                /\ unmarshal src_tables 12 top (TNamed "Environment") j
                   = Ok (nilify src_tables 12 (TNamed "Environment") harmless_env))
  /\ nilify src_tables 12 (TNamed "Environment") harmless_env = harmless_env_nil
  /\ gval_eqb false harmless_env (nilify src_tables 12 (TNamed "Environment") harmless_env) = false.
Proof. exact harmless_empties. Qed.
