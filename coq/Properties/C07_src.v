(* Properties/C07_src.v — side conditions of C07 on the SOURCE of the evaluator: the behaviour tables that
   harness/cmd/srcfacts/evalcore.go reads out of eval/value.go, eval/eval.go, eval/crypt.go and environment.go on every run
   (coq/Src/SrcEval.v) are the ones the models Model/Chain.v / Model/Eval.v were written against (Proofs/EvalSrc.v, where
   each table is listed next to the model definition it is the source of).  What C07 rests on: the cycle breakers (exprEvaluating, the evaluating mark of imports, merge's chain guard), the failure paths that yield diagnostic + unknown, and that no builtin touches an argument's repr before the unknown check.
   Statements only, closed by [exact]; decided by computation. *)
From Verif Require Import Base.Bytes Src.SrcEval Proofs.EvalSrc Proofs.EvalSrcExpr Proofs.EvalSrcImport Proofs.EvalSrcMerge Proofs.EvalSrcBuiltins Proofs.EvalSrcSecret Proofs.EvalSrcOpen Proofs.EvalSrcAccess Proofs.EvalSrcDeclare.

Theorem C07_src_expr_dispatch_memo : eval_src_expr_ok = true.
Proof. exact eval_src_expr_ok_true. Qed.

Theorem C07_src_imports_table : eval_src_import_ok = true.
Proof. exact eval_src_import_ok_true. Qed.

Theorem C07_src_merge_is_append : eval_src_merge_ok = true.
Proof. exact eval_src_merge_ok_true. Qed.

Theorem C07_src_builtins : eval_src_builtins_ok = true.
Proof. exact eval_src_builtins_ok_true. Qed.

Theorem C07_src_secret_builtin : eval_src_secret_ok = true.
Proof. exact eval_src_secret_ok_true. Qed.

Theorem C07_src_open_gate : eval_src_open_ok = true.
Proof. exact eval_src_open_ok_true. Qed.

Theorem C07_src_reference_resolution : eval_src_access_ok = true.
Proof. exact eval_src_access_ok_true. Qed.

Theorem C07_src_declared_over_base : eval_src_declare_ok = true.
Proof. exact eval_src_declare_ok_true. Qed.

Theorem C07_src_dispatch_matches_constructors : dispatch_ok = true.
Proof. exact dispatch_ok_true. Qed.
