(* Properties/C06_schema.v — C06, last clause: "when providers return exactly what their output schema declares, the
   schema reported by check accepts the value the opened environment produces".
   Statements only; proofs in Proofs/SchemaSound*.v.  (To be merged into Properties/C06.v.)

   Acceptance: [sch_accepts] of Proofs/CheckApproxExamples.v, unchanged (type / tuple prefix + items / properties +
   additionalProperties / oneOf; an unknown value is accepted by every schema; the model's schemas have no `required`,
   so a record schema accepts an object that lacks a declared property).  [accepts s v]: accepted with some fuel.

   RESULT.  The clause as stated is FALSE of the model and of the implementation ([C06_schema_sound_refuted]); eight
   witnesses, six of them independent defects of Schema.Property / Schema.Item / mergedSchema (findings).
   It is PROVED for: no merged import, execution context without unknowns, provider output schemas without open
   records / open arrays ([sch_ok]) — with the literal conclusion when these schemas have no oneOf
   ([C06_schema_sound_partial]), with "accepted with enough fuel" otherwise ([C06_schema_sound_partial_oneof]).
   fn::toJSON is NOT excluded.  Each restriction is necessary (witness C: sch_ok; witnesses E2, G2: merged imports).

   Class predicates (Proofs/SchemaSoundAccept.v, SchemaSoundEval.v):
     sch_ok s      no ScObject _ None, no ScArray _ None anywhere in s
     of_free s     no ScOneOf anywhere in s
     good b s      sch_ok s, and of_free s if b = true
     provs_good b W  every provider's pv_out is good b
     env_nm d / world_nm W   every import of d / of every environment of W has merge = false
     ctx_known W   no unknown flag in the execution-context values
   Invariant (Proofs/SchemaSoundRel.v):
     sa b c o      check chain c describes open chain o: an unknown check layer carries a schema of class good b that
                   accepts o (accC, on single-layer chains h1); a known check layer carries the canonical schema of its
                   value and faces a layer of the same constructor, flags, payload / keys, with related children. *)
From Verif Require Import Base.Bytes Base.Wire Model.Chain Model.GoText Model.Envelope Model.Eval Corr.EvalWire.
From Verif Require Corr.C06.
From Verif Require Import Proofs.NonInterferenceRel Proofs.NonInterferenceTwins
     Proofs.CheckApproxMono Proofs.CheckApproxRel Proofs.CheckApproxKit Proofs.CheckApproxEval
     Proofs.CheckApproxMain Proofs.CheckApproxExamples
     Proofs.SchemaSoundAccept Proofs.SchemaSoundUnion Proofs.SchemaSoundProperty Proofs.SchemaSoundItem
     Proofs.SchemaSoundMerged Proofs.SchemaSoundRel Proofs.SchemaSoundOps Proofs.SchemaSoundKit Proofs.SchemaSoundEval
     Proofs.SchemaSoundMain Proofs.SchemaSoundRefute Proofs.SchemaSoundExamples.
From Coq Require Import Lia.

(* ---------------- the clause ---------------- *)
(* as stated (every environment, all conforming providers): *)
Definition C06_schema_sound_statement : Prop :=
  forall W show fuel name d,
    w_check W = false -> w_fault W = None -> providers_conform W ->
    ob_oof (run fuel (C06.with_mode W true show) name d) = false -> ob_oof (run fuel W name d) = false ->
    exists o, ob_value (run fuel W name d) = Some o /\
              sch_accepts (S (S (x_depth o)))
                          (top_sch (fst (eval_env (C06.with_mode W true show) fuel "" name d st0))) o = true.

Theorem C06_schema_sound_refuted : ~ C06_schema_sound_statement.
Proof. exact schema_sound_refuted. Qed.

(* even restricted to worlds WITHOUT providers, and asking only for acceptance with SOME fuel *)
Theorem C06_schema_sound_refuted_no_providers :
  ~ (forall W show fuel name d,
       w_check W = false -> w_fault W = None -> w_provs W = [] ->
       ob_oof (run fuel (C06.with_mode W true show) name d) = false -> ob_oof (run fuel W name d) = false ->
       exists o, ob_value (run fuel W name d) = Some o /\
                 exists n, sch_accepts n (top_sch (fst (eval_env (C06.with_mode W true show) fuel "" name d st0))) o = true).
Proof. exact schema_sound_refuted_no_providers. Qed.

(* PROVED for the class; literal conclusion of the statement *)
Theorem C06_schema_sound_partial :
  forall W show fuel name d,
    w_check W = false -> w_fault W = None -> providers_conform W ->
    world_nm W -> env_nm d = true -> ctx_known W = true -> provs_good true W ->
    ob_oof (run fuel (C06.with_mode W true show) name d) = false -> ob_oof (run fuel W name d) = false ->
    exists o, ob_value (run fuel W name d) = Some o /\
              sch_accepts (S (S (x_depth o)))
                          (top_sch (fst (eval_env (C06.with_mode W true show) fuel "" name d st0))) o = true.
Proof. exact schema_sound_partial. Qed.

(* provider schemas may contain oneOf: accepted with every sufficiently large fuel *)
Theorem C06_schema_sound_partial_oneof :
  forall W show fuel name d,
    w_check W = false -> w_fault W = None -> providers_conform W ->
    world_nm W -> env_nm d = true -> ctx_known W = true -> provs_good false W ->
    ob_oof (run fuel (C06.with_mode W true show) name d) = false -> ob_oof (run fuel W name d) = false ->
    exists o, ob_value (run fuel W name d) = Some o /\
              exists n, forall m, (n <= m)%nat ->
                sch_accepts m (top_sch (fst (eval_env (C06.with_mode W true show) fuel "" name d st0))) o = true.
Proof. exact schema_sound_partial_oneof. Qed.

(* general form: a check world and an open world with the same environments, context and providers *)
Theorem C06_schema_sound_worlds : forall b Wc Wo fuel name d,
  W_cs b Wc Wo -> env_nm d = true ->
  ob_oof (run fuel Wc name d) = false -> ob_oof (run fuel Wo name d) = false ->
  exists o, ob_value (run fuel Wo name d) = Some o /\
            accepts (check_schema Wc fuel name d) o /\
            (b = true -> sch_accepts (S (S (x_depth o))) (check_schema Wc fuel name d) o = true).
Proof. exact schema_sound_cs. Qed.

(* ---------------- witnesses (each: no diagnostics, no fuel exhaustion, providers conform; the reported schema
   rejects the opened value with EVERY fuel) ---------------- *)
(* C: provider schema {type: object}, `x: ${cfg.k}`: Property answers `false` for an undeclared key of an open record *)
Example C06_schema_witness_C : witness W_C d_C S_C o_C /\ providers_conform W_C /\ rejects S_C o_C.
Proof. exact (conj (proj1 witness_C) (conj (proj2 witness_C) rejects_C)). Qed.
(* A: {additionalProperties: string} merged over a known {k: {x: 1}}: mergedSchema keeps the base's schema for k *)
Example C06_schema_witness_A : witness W_A d_A S_A o_A /\ providers_conform W_A /\ rejects S_A o_A.
Proof. exact (conj (proj1 witness_A) (conj (proj2 witness_A) rejects_A)). Qed.
(* E: a closed record merged over the output of a provider of schema `true` *)
Example C06_schema_witness_E : witness W_E d_E S_E o_E /\ providers_conform W_E /\ rejects S_E o_E.
Proof. exact (conj (proj1 witness_E) (conj (proj2 witness_E) rejects_E)). Qed.
(* E2: the same over fn::fromJSON of a ciphertext; inside the class except for the merged import *)
Example C06_schema_witness_E2 : witness W_E2 d_E S_E o_E2 /\ providers_conform W_E2 /\ rejects S_E o_E2 /\
  world_nm W_E2 /\ ctx_known W_E2 = true /\ provs_good true W_E2 /\ env_nm d_E = false.
Proof. exact (conj (proj1 witness_E2) (conj (proj2 witness_E2) (conj rejects_E2 witness_E2_class))). Qed.
(* B': a declared property the provider does not return, under a merge *)
Example C06_schema_witness_B : witness W_B d_B S_B o_B /\ providers_conform W_B /\ rejects S_B o_B.
Proof. exact (conj (proj1 witness_B) (conj (proj2 witness_B) rejects_B)). Qed.
(* G / G2: `cfg.k: ${other}` re-merged over a known base straight through an unknown layer; G2 has no provider *)
Example C06_schema_witness_G : witness W_G d_G S_G (o_G false) /\ providers_conform W_G /\ rejects S_G (o_G false).
Proof. exact (conj (proj1 witness_G) (conj (proj2 witness_G) (rejects_G false))). Qed.
Example C06_schema_witness_G2 : witness W_G2 d_G S_G (o_G true) /\ w_provs W_G2 = [] /\ rejects S_G (o_G true).
Proof. exact (conj (proj1 witness_G2) (conj (proj2 (proj2 witness_G2)) (rejects_G true))). Qed.
(* C is inside the class except for the provider schema *)
Example C06_schema_witness_C_class :
  world_nm W_C /\ env_nm d_C = true /\ ctx_known W_C = true /\ sch_ok (ScObject [] None) = false.
Proof. exact witness_C_class. Qed.
(* F: artefact of the statement's fuel (nested oneOf under a duplicate key): rejected with S (S (x_depth o)), accepted with 6 *)
Example C06_schema_witness_F : witness W_F d_F S_F o_F /\ providers_conform W_F /\
  sch_accepts (S (S (x_depth o_F))) S_F o_F = false /\ sch_accepts 6 S_F o_F = true.
Proof. exact witness_F. Qed.
(* the fn::toJSON witness of the approximation clause does not refute the schema clause *)
Example C06_schema_tojson_holds :
  providers_conform W_tj /\
  exists o, ob_value (run 40 W_tj "main" d_tj) = Some o /\
            sch_accepts (S (S (x_depth o))) (check_schema (C06.with_mode W_tj true false) 40 "main" d_tj) o = true.
Proof. exact tojson_schema_holds. Qed.

(* ---------------- acceptance ---------------- *)
Theorem C06_accepts_fuel_mono : forall n m s v, (n <= m)%nat -> sch_accepts n s v = true -> sch_accepts m s v = true.
Proof. exact sch_accepts_le. Qed.

(* without oneOf, fuel = depth of the value is enough *)
Theorem C06_accepts_fuel_of_free : forall n s v m,
  of_free s = true -> sch_accepts n s v = true -> (x_depth v <= m)%nat -> sch_accepts m s v = true.
Proof. exact of_free_fuel. Qed.

(* ---------------- the schema operations, each for ALL inputs ---------------- *)
(* union (schema.go union) *)
Theorem C06_sch_union_intro : forall n l s v,
  In s l -> sch_accepts n s v = true -> sch_accepts (S n) (sch_union l) v = true.
Proof. exact sch_union_intro. Qed.
Theorem C06_sch_union_elim : forall n l v,
  sch_accepts n (sch_union l) v = true -> C06.x_unk v = true \/ exists s, In s l /\ sch_accepts n s v = true.
Proof. exact sch_union_elim. Qed.

(* Property: sound wherever the schema constrains the key at all; the two excluded shapes are unsound *)
Theorem C06_sch_property_sound : forall g n s k sec m v,
  prop_defined g s = true -> sch_accepts n s (XObj sec false m) = true -> In (k, v) m ->
  sch_accepts n (sch_property g k s) v = true.
Proof. exact sch_property_sound. Qed.
Example C06_sch_property_always_unsound :
  sch_accepts 3 ScAlways (XObj false false [("k", XScalar false false (SNum "1"))]) = true /\
  sch_property (sch_depth ScAlways) "k" ScAlways = ScNever /\
  forall n, sch_accepts n (sch_property (sch_depth ScAlways) "k" ScAlways) (XScalar false false (SNum "1")) = false.
Proof. exact sch_property_always_unsound. Qed.
Example C06_sch_property_open_record_unsound :
  sch_accepts 3 (ScObject [] None) (XObj false false [("k", XScalar false false (SNum "1"))]) = true /\
  sch_property (sch_depth (ScObject [] None)) "k" (ScObject [] None) = ScNever /\
  forall n, sch_accepts n (sch_property (sch_depth (ScObject [] None)) "k" (ScObject [] None)) (XScalar false false (SNum "1")) = false.
Proof. exact sch_property_open_record_unsound. Qed.

(* Item *)
Theorem C06_sch_item_sound : forall g n s i sec l v,
  item_defined g s = true -> sch_accepts n s (XArr sec false l) = true -> nth_error l i = Some v ->
  sch_accepts n (sch_item g i s) v = true.
Proof. exact sch_item_sound. Qed.
Example C06_sch_item_open_array_unsound :
  sch_accepts 3 (ScArray [] None) (XArr false false [XScalar false false (SNum "1")]) = true /\
  sch_item (sch_depth (ScArray [] None)) 0 (ScArray [] None) = ScNever /\
  forall n, sch_accepts n (sch_item (sch_depth (ScArray [] None)) 0 (ScArray [] None)) (XScalar false false (SNum "1")) = false.
Proof. exact sch_item_open_array_unsound. Qed.

(* mergedSchema: sound when the top schema describes the top value tightly (the canonical schema of a known value);
   x_merge is JSON merge patch on exported values; swf: duplicate-free record keys *)
Theorem C06_merged_schema_sound : forall n g bo T b t,
  obase_ok n bo b -> oswf bo -> swf T -> sch_accepts n T t = true -> tight T t ->
  sch_accepts n (merged_schema g bo T) (x_merge b t) = true.
Proof. exact merged_schema_sound. Qed.

(* the classes are closed under the projections *)
Theorem C06_sch_ok_property : forall g k s, sch_ok s = true -> sch_ok (sch_property g k s) = true.
Proof. exact sch_ok_property. Qed.
Theorem C06_sch_ok_item : forall g i s, sch_ok s = true -> sch_ok (sch_item g i s) = true.
Proof. exact sch_ok_item. Qed.

(* ---------------- the invariant ---------------- *)
(* it refines the approximation relation of C06_approx *)
Theorem C06_sa_ap : forall b c o, sa b c o -> chain_ap ap_l c o.
Proof. exact sa_ap. Qed.

(* a conforming provider value, as a chain, is accepted by the declared schema *)
Theorem C06_acc_unexport : forall n s v g xs, sch_accepts n s v = true -> accC s (unexport g xs v).
Proof. exact acc_unexport. Qed.

(* evaluateUnknownAccess on the schema against evaluateValueAccess on the value *)
Theorem C06_unknown_access_sound : forall b accs f s o s',
  good b s = true -> accC s o -> fst (unknown_access s accs) = [unknown_layer false s'] ->
  accC s' (fst (value_access f o accs)).
Proof. exact ua_acc. Qed.

Theorem C06_sa_value_access : forall b f c o accs, sa b c o ->
  sa b (fst (value_access f c accs)) (fst (value_access f o accs)).
Proof. exact value_access_sa. Qed.

(* the schema of the check chain accepts the export of the open chain *)
Theorem C06_sa_export : forall b f c o x, sa b c o -> export f o = Some x -> accepts (top_sch c) x.
Proof. exact sa_export. Qed.

(* a check value without unknowns IS the open value (fn::toJSON) *)
Theorem C06_sa_export_known : forall b f c o xc,
  sa b c o -> export f c = Some xc -> x_has_unknown xc = false -> export f o = Some xc.
Proof. exact sa_export_known. Qed.

(* the simulation: five functions, one induction on fuel; environments *)
Theorem C06_schema_sim_invariant : forall b Wc Wo, W_cs b Wc Wo -> forall f,
  Q_expr b Wc Wo f /\ Q_repr b Wc Wo f /\ Q_typed b Wc Wo f /\ Q_access b Wc Wo f /\ Q_walk b Wc Wo f.
Proof. exact ssim_invariant. Qed.

Theorem C06_schema_sim_env : forall b Wc Wo, W_cs b Wc Wo -> forall f root name d, env_nm d = true ->
  mrel_s (sa b) (sa b) (eval_env Wc f root name d) (eval_env Wo f root name d).
Proof. exact ssim_env. Qed.

(* ---------------- a concrete world inside the class ---------------- *)
Example C06_schema_demo_runs :
  check_schema (C06.with_mode W_sd true false) 40 "main" d_sd = sd_schema /\
  ob_value (run 40 W_sd "main" d_sd) = Some sd_open /\
  ob_errors (run 40 W_sd "main" d_sd) = false /\ ob_errors (run 40 (C06.with_mode W_sd true false) "main" d_sd) = false.
Proof. exact sd_runs. Qed.

Example C06_schema_demo_hyps :
  providers_conform W_sd /\ world_nm W_sd /\ env_nm d_sd = true /\ ctx_known W_sd = true /\ provs_good true W_sd.
Proof. exact (conj sd_conform (conj sd_world_nm (conj eq_refl (conj eq_refl sd_good)))). Qed.

Example C06_schema_demo_instance : forall show,
  exists o, ob_value (run 40 W_sd "main" d_sd) = Some o /\
            sch_accepts (S (S (x_depth o)))
                        (top_sch (fst (eval_env (C06.with_mode W_sd true show) 40 "" "main" d_sd st0))) o = true.
Proof. exact sd_instance. Qed.
