(* Properties/C09_src.v — side conditions of C09 on the SOURCE of the evaluator: the behaviour tables that
   harness/cmd/srcfacts/evalcore.go reads out of eval/value.go, eval/eval.go, eval/crypt.go and environment.go on every run
   (coq/Src/SrcEval.v) are the ones the models Model/Chain.v / Model/Eval.v were written against (Proofs/EvalSrc.v, where
   each table is listed next to the model definition it is the source of).  What C09 rests on: every iteration over a Go map that is observable is over sorted keys (keys, toString, evaluateObject).
   Statements only, closed by [exact]; decided by computation. *)
From Verif Require Import Base.Bytes Src.SrcEval Proofs.EvalSrc Proofs.EvalSrcOrder Proofs.EvalSrcChainView.

Theorem C09_src_sorted_iteration : eval_src_order_ok = true.
Proof. exact eval_src_order_ok_true. Qed.

Theorem C09_src_merged_view : eval_src_chain_view_ok = true.
Proof. exact eval_src_chain_view_ok_true. Qed.
