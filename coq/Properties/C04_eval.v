(* Properties/C04_eval.v — C04, last clause, at the level of the evaluator (Model/Eval.v): opening the encrypted
   program with the matching decrypter yields exactly the same values and flags as evaluating the plaintext program.
   Statements only; proofs in Proofs/Transparency*.v.

   enc_rel dec env xp xe   expressions equal except that an [ESecretPlain s] of the plaintext side may face an
                           [ESecretCipher r] with  decode_ct std r = DOk ct  and  dec env ct = Some s  ([env]: the name of
                           the environment that contains the expression — decrypters are per environment);
   enc_env dec env dp de   the same for environment definitions (equal imports, values related key by key);
   transp_hyp Wp We name dp de   the two worlds are equal (providers, context, mode, decrypter) except for the stored
                           environments, related name by name each under its own name; root documents related; no fault
                           plan; the mode is opening, or checking WITH showSecrets; an entry of the store under the root's
                           name, if any, is the root document;
   log_tr dec lp le        [le] is [lp] with Decrypt events (whose decryption succeeds) inserted. *)
From Verif Require Import Base.Bytes Model.Chain Model.GoText Model.Envelope Model.Eval.
From Verif Require Import Proofs.EnvelopeProofs Proofs.NonInterferenceRel Proofs.NonInterferenceTwins Proofs.CheckApproxMono
     Proofs.TransparencySyntax Proofs.TransparencyKit Proofs.TransparencyEval Proofs.TransparencyMain Proofs.TransparencyExamples.

(* the theorem: equal values with their secret/unknown flags (the result CHAINS are syntactically equal, hence so are the
   exports), equal diagnostics flag, and the encrypted log is the plaintext log with successful Decrypt events inserted.
   No hypothesis on diagnostics; both runs must not run out of fuel (the plaintext side needs two more levels of fuel
   per secret, for the inner literal it evaluates and memoises) *)
Theorem C04_open_encrypted_eq_open_plain_eval :
  forall Wp We name dp de, transp_hyp Wp We name dp de -> forall fuel,
  ob_oof (run fuel Wp name dp) = false -> ob_oof (run fuel We name de) = false ->
  ob_value (run fuel Wp name dp) = ob_value (run fuel We name de) /\
  ob_errors (run fuel Wp name dp) = ob_errors (run fuel We name de) /\
  log_tr (w_decrypt We) (ob_log (run fuel Wp name dp)) (ob_log (run fuel We name de)) /\
  fst (eval_env Wp fuel "" name dp st0) = fst (eval_env We fuel "" name de st0).
Proof. exact transparency. Qed.

(* deleting the Decrypt events of the encrypted log gives the plaintext log, when the plaintext run decrypts nothing *)
Theorem C04_log_after_deleting_decrypts : forall dec lp le,
  log_tr dec lp le -> Forall (fun e => is_dec e = false) lp -> filter (fun e => negb (is_dec e)) le = lp.
Proof. exact log_tr_filter. Qed.

(* the invariant behind it, for the five mutually recursive functions and for eval_env, from ANY pair of related states
   (plaintext memo = encrypted memo plus the entries of the inner literals; imports equal; logs related; nerr equal) *)
Theorem C04_transp_invariant : forall Wp We G, W_t Wp We G -> forall f,
  T_expr Wp We G f /\ T_repr Wp We G f /\ T_typed Wp We G f /\ T_access Wp We G f /\ T_walk Wp We G f.
Proof. exact transp_invariant. Qed.

Theorem C04_transp_env : forall Wp We G, W_t Wp We G -> forall f root name dp de,
  env_t We G name dp de ->
  mrel_t G (w_decrypt We) eq (eval_env Wp f root name dp) (eval_env We f root name de).
Proof. exact transp_env. Qed.

(* one step: the inner literal of a secret on the plaintext side against the envelope on the encrypted side *)
Theorem C04_secret_pair : forall Wp We G, W_t Wp We G -> forall f E E' p s r ct,
  ec_name E = ec_name E' -> G (ec_name E, p ++ [IIdx 0]) = Some s ->
  decode_ct std r = DOk ct -> w_decrypt We (ec_name E) ct = Some s ->
  mrel_t G (w_decrypt We) eq (eval_expr Wp f E (EStr s) true [] (ec_name E, p ++ [IIdx 0])) (cipher_body We E' r).
Proof. exact t_secret_pair. Qed.

(* from the relation a user states to the positioned relation of the simulation *)
Theorem C04_enc_rel_at : forall dec rootp roote n rp re, rootp n = Some rp -> roote n = Some re ->
  forall xp xe p, enc_rel dec n xp xe -> sub_at p rp = Some xp -> sub_at p re = Some xe -> G_of rootp roote (n, p) = None ->
  enc_at dec (G_of rootp roote) n p xp xe.
Proof. exact enc_rel_at. Qed.

(* ---------------- composing with the envelope round trip (C11) ---------------- *)
Theorem C04_std_params_wf : wf_params std.
Proof. exact std_wf. Qed.

Theorem C04_envelope_hypothesis : forall dec env s c, dec env c = Some s ->
  enc_rel dec env (ESecretPlain s) (ESecretCipher (encode_ct std c)).
Proof. exact enc_rel_roundtrip. Qed.

(* encrypting every secret of a program with a cipher that the decrypter inverts gives a related program *)
Theorem C04_enc_expr_related : forall dec env enc, (forall s, dec env (enc s) = Some s) ->
  forall x, enc_rel dec env x (enc_expr enc x).
Proof. exact enc_expr_rel. Qed.

Theorem C04_enc_envdef_related : forall dec env enc d, (forall s, dec env (enc s) = Some s) ->
  enc_env dec env d (enc_envdef enc d).
Proof. exact enc_envdef_rel. Qed.

(* ---------------- examples ---------------- *)
Example C04_both_forms :
  let op := run 40 (W_ex false false false None) "main" (d_ex false) in
  let oe := run 40 (W_ex true false false None) "main" (d_ex true) in
  ob_oof op = false /\ ob_oof oe = false /\
  ob_value op = Some ex_value /\ ob_value oe = Some ex_value /\
  ob_errors op = true /\ ob_errors oe = true /\
  filter (fun e => negb (is_dec e)) (ob_log oe) = ob_log op /\
  filter is_dec (ob_log oe) = [EvDecrypt "base" "Xhunter2"; EvDecrypt "main" "Xk3y"; EvDecrypt "main" "Xt0k"].
Proof. exact both_forms. Qed.

Example C04_hypotheses_satisfiable : forall check show, check && negb show = false ->
  transp_hyp (W_ex false check show None) (W_ex true check show None) "main" (d_ex false) (d_ex true).
Proof. exact ex_hyp. Qed.

Example C04_instance_open :
  ob_value (run 40 (W_ex false false false None) "main" (d_ex false)) = ob_value (run 40 (W_ex true false false None) "main" (d_ex true)) /\
  ob_errors (run 40 (W_ex false false false None) "main" (d_ex false)) = ob_errors (run 40 (W_ex true false false None) "main" (d_ex true)).
Proof. exact ex_instance_open. Qed.

Example C04_instance_check_show :
  ob_value (run 40 (W_ex false true true None) "main" (d_ex false)) = ob_value (run 40 (W_ex true true true None) "main" (d_ex true)).
Proof. exact ex_instance_check_show. Qed.

(* checking WITHOUT showSecrets is not transparent (equality is specific to opening / showing) *)
Example C04_check_noshow_differs :
  let op := run 40 (W_ex false true false None) "main" (d_ex false) in
  let oe := run 40 (W_ex true true false None) "main" (d_ex true) in
  ob_oof op = false /\ ob_oof oe = false /\ ob_value op <> ob_value oe /\
  match ob_value op, ob_value oe with
  | Some (XObj _ _ mp), Some (XObj _ _ me) =>
      alookup "api" mp = Some (XScalar true false (SStr "k3y")) /\ alookup "api" me = Some (XScalar true true SNull) /\
      alookup "url" me = Some (XScalar true true (SStr "[unknown]"))
  | _, _ => False
  end.
Proof. exact check_noshow_differs. Qed.

(* a fault plan breaks the statement: the call counters differ *)
Example C04_faults_break_transparency :
  let op := run 40 (W_ex false false false (Some 1)) "main" (d_ex false) in
  let oe := run 40 (W_ex true false false (Some 1)) "main" (d_ex true) in
  ob_oof op = false /\ ob_oof oe = false /\ ob_value op <> ob_value oe /\
  match ob_value op, ob_value oe with
  | Some (XObj _ _ mp), Some (XObj _ _ me) =>
      alookup "dbpw" mp = Some (XScalar true false (SStr "hunter2")) /\ alookup "dbpw" me = Some (XScalar true true SNull)
  | _, _ => False
  end.
Proof. exact faults_break_transparency. Qed.
