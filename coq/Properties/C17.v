(* Properties/C17.v — Shell output reproduces values exactly.
   Only statements closed by [exact]; the proofs live in Proofs/ShellProofs.v.
   [sh_eval] is the POSIX semantics of `export NAME=word` scripts of Model/Shell.v: [Exports l] means that evaluating
   the script performs exactly the exports [l] (in this order) and has no other effect. *)
From Verif Require Import Base.Bytes Model.Shell Src.SrcShell Proofs.ShellProofs.

(* the constants the Go source has today, as read by srcfacts on this run *)
Definition src_params : shell_params :=
  {| sp_prefix := shell_line_prefix; sp_suffix := shell_line_suffix; sp_sep := env_pair_sep;
     sp_escaped := shell_escaped_bytes; sp_secret := secret_placeholder;
     sp_unknown_path := unknown_path_placeholder; sp_unknown_value := unknown_value_text |}.

(* side conditions on the extracted constants, discharged by computation: lines are `export K=V` + newline, the bytes
   shellQuote escapes are exactly dollar, backquote, double quote and backslash, the placeholders contain no NUL *)
Theorem C17_src_params_ok : params_ok src_params = true.
Proof. exact (eq_refl true). Qed.

(* ---- the full statement and where it stops ------------------------------------------------------------------------
   "The shell rendering ... when evaluated, exports each scalar entry of environmentVariables with exactly its value
   and has no other effect", for every valid name.  Two things stand between the code and this statement, and both
   are written into the theorem names below (nothing is excluded silently):
   (1) NAMES THE INTERPRETER ITSELF TREATS SPECIALLY (Model.Shell.dash_special / bash_special / mvdan_special,
       measured and re-measured in every run): no quoting can make `export UID=...` succeed in bash.  [sh_eval_in sp]
       is the reading of a script by an interpreter with special names [sp]; [_refuted] exhibits bash and UID,
       [_partial] holds for EVERY list [sp] and every name outside it (so for each of the three interpreters, and
       with [sp = []] for the reading of POSIX itself, where no variable is read-only: [_posix]).  A limit of the
       target shells, not a defect of esc: documented (lib/verif/props/c17.py ASSUMPTIONS), not a known finding.
   (2) A KEY THAT IS BOTH A VARIABLE AND A FILE (known finding C17-file-shadows-variable, class
       Model.Shell.kf_file_shadows): the file's path wins. *)

(* the commands pass to renderValue, and renderValue to PrepareEnvironment, the flags under which the theorems below
   are read: `esc env get --value F` = (pretend, show --show-secrets), `esc open --format F` = (write the files, show);
   PrepareOptions{Pretend: pretend, Quote: true, [Shell: true,] Redact: !showSecrets} (read from env_get.go / env_open.go
   on this run; the correspondence observes the same through the real commands) *)
Theorem C17_src_callers_ok :
  (get_render_pretend, get_render_show_is_the_flag, open_render_pretend, open_render_show,
   render_shell_options_ok, render_dotenv_options_ok) = (true, true, false, true, true, true).
Proof. exact (eq_refl (true, true, false, true, true, true)). Qed.

(* one variable *)
Theorem C17_shell_faithful_refuted :
  exists sp k v, In sp interpreters /\ valid_name k = true /\ no_nul v = true
                 /\ sh_eval_in sp (render_shell src_params [(k, v)]) <> Exports [(k, v)].
Proof. exact (shell_faithful_refuted src_params C17_src_params_ok). Qed.

Theorem C17_shell_faithful_partial : forall (sp : list string) (k v : string),
  valid_name k = true -> mem_str k sp = false -> no_nul v = true ->
  sh_eval_in sp (render_shell src_params [(k, v)]) = Exports [(k, v)].
Proof. exact (fun sp => shell_faithful_in src_params sp C17_src_params_ok). Qed.

(* the reading of POSIX itself (no special names): every valid name, every byte string without NUL *)
Theorem C17_shell_faithful_posix : forall k v : string, valid_name k = true -> no_nul v = true ->
  sh_eval (render_shell src_params [(k, v)]) = Exports [(k, v)].
Proof. exact (shell_faithful src_params C17_src_params_ok). Qed.

(* any number of variables *)
Theorem C17_shell_faithful_list_partial : forall (sp : list string) (l : list (string * string)),
  forallb (pair_ok_in sp) l = true -> sh_eval_in sp (render_shell src_params l) = Exports l.
Proof. exact (fun sp => shell_faithful_list_in src_params sp C17_src_params_ok). Qed.

Theorem C17_shell_faithful_list_posix : forall l : list (string * string), forallb pair_ok l = true ->
  sh_eval (render_shell src_params l) = Exports l.
Proof. exact (shell_faithful_list src_params C17_src_params_ok). Qed.

(* the whole command: `esc open --format shell` (redact = pretend = false) and `esc env get --value shell`
   (pretend = true), for any environmentVariables / files objects and any file-system naming of temporary files.
   Key collisions between the two objects are NOT excluded here: the script exports the pairs in this order. *)
Theorem C17_script_faithful_refuted :
  exists sp vars, In sp interpreters /\ forallb entry_ok vars = true
    /\ sh_eval_in sp (shell_script src_params false false (fun _ => "") vars [])
       <> Exports (env_pairs src_params false false (fun _ => "") vars []).
Proof. exact (shell_script_faithful_refuted src_params C17_src_params_ok). Qed.

Theorem C17_script_faithful_partial :
  forall (sp : list string) (redact pretend : bool) (path_of : nat -> string) (vars files : list entry),
  forallb (entry_ok_in sp) vars = true -> forallb (entry_ok_in sp) files = true ->
  (forall i, no_nul (path_of i) = true) ->
  sh_eval_in sp (shell_script src_params redact pretend path_of vars files)
  = Exports (env_pairs src_params redact pretend path_of vars files).
Proof. exact (fun sp r pr po vs fs => shell_script_faithful_in src_params sp r pr po vs fs C17_src_params_ok). Qed.

Theorem C17_script_faithful_posix :
  forall (redact pretend : bool) (path_of : nat -> string) (vars files : list entry),
  forallb entry_ok vars = true -> forallb entry_ok files = true -> (forall i, no_nul (path_of i) = true) ->
  sh_eval (shell_script src_params redact pretend path_of vars files)
  = Exports (env_pairs src_params redact pretend path_of vars files).
Proof. exact (fun r pr po vs fs => shell_script_faithful src_params r pr po vs fs C17_src_params_ok). Qed.

(* ... and in the resulting environment every scalar entry of environmentVariables has exactly its value (hidden
   secrets: the placeholder).  FULL statement: for every entry [e] of [vars].  Refuted by a key that is also a scalar
   entry of `files` (even in the POSIX reading): known finding C17-file-shadows-variable ... *)
Theorem C17_exports_each_variable_refuted :
  exists (redact pretend : bool) (path_of : nat -> string) (vars files : list entry) (e : entry) (t : string),
    forallb entry_ok vars = true /\ forallb entry_ok files = true /\ (forall i, no_nul (path_of i) = true)
    /\ NoDup (map e_key vars) /\ NoDup (map e_key files) /\ In e vars /\ scalar_text src_params e = Some t
    /\ kf_file_shadows src_params vars files = true
    /\ ~ (exists l, sh_eval (shell_script src_params redact pretend path_of vars files) = Exports l
                    /\ sh_lookup (e_key e) l = Some (if e_secret e && redact then sp_secret src_params else t)).
Proof. exact (shell_exports_each_var_refuted src_params C17_src_params_ok). Qed.

(* ... and proved for every entry that no scalar entry of `files` shadows, in every interpreter *)
Theorem C17_exports_each_variable_partial :
  forall (sp : list string) (redact pretend : bool) (path_of : nat -> string) (vars files : list entry) (e : entry)
         (t : string),
  forallb (entry_ok_in sp) vars = true -> forallb (entry_ok_in sp) files = true ->
  (forall i, no_nul (path_of i) = true) ->
  NoDup (map e_key vars) -> shadowed src_params files (e_key e) = false ->
  In e vars -> scalar_text src_params e = Some t ->
  exists l, sh_eval_in sp (shell_script src_params redact pretend path_of vars files) = Exports l
            /\ sh_lookup (e_key e) l = Some (if e_secret e && redact then sp_secret src_params else t).
Proof.
  exact (fun sp r pr po vs fs e t => shell_exports_each_var_partial src_params sp r pr po vs fs e t C17_src_params_ok).
Qed.

(* the measured lists: what is and what is not special (non-vacuity of the exclusion, and its tightness for the names
   the audit asked about: IFS, PATH, PS1, PWD, OLDPWD, SHLVL are ordinary in all three interpreters; UID is not in
   bash and mvdan.cc/sh, `_` and RANDOM are not in bash) *)
Example C17_special_names :
  forallb portable_name ["IFS"; "PATH"; "PS1"; "PWD"; "OLDPWD"; "SHLVL"; "HOME"; "DB_PASSWORD"] = true
  /\ map (mem_str "UID") interpreters = [false; true; true]
  /\ map (mem_str "_") interpreters = [false; true; false]
  /\ map (mem_str "RANDOM") interpreters = [false; true; false]
  /\ map (mem_str "OPTIND") interpreters = [true; true; false].
Proof. exact (conj eq_refl (conj eq_refl (conj eq_refl (conj eq_refl eq_refl)))). Qed.

(* the rendering before the repair (strconv.Quote for --format shell) violates the property *)
Theorem C17_old_quoting_refuted :
  exists k v s, valid_name k = true /\ no_nul v = true /\ old_shell_script src_params [(k, v)] = Some s
                /\ sh_eval s <> Exports [(k, v)].
Proof. exact (old_quoting_refuted src_params C17_src_params_ok). Qed.

Theorem C17_old_quoting_expands :
  exists s, old_shell_script src_params [("K", "$HOME")] = Some s /\ sh_eval s = OtherEffect.
Proof. exact (old_quoting_expands src_params C17_src_params_ok). Qed.

Theorem C17_old_quoting_changes_value :
  exists s, old_shell_script src_params [("K", "a" +++ lf +++ "b")] = Some s /\ sh_eval s = Exports [("K", "a\nb")].
Proof. exact (old_quoting_changes_value src_params C17_src_params_ok). Qed.

(* values of printable ASCII without dollar and backquote are rendered exactly as before the repair *)
Theorem C17_benign_rendering_unchanged : forall v : string, benign v = true ->
  go_quote v = Some (sh_quote (sp_escaped src_params) v).
Proof. exact (fun v => benign_rendering_unchanged src_params v C17_src_params_ok). Qed.

(* with secrets hidden (`esc env get --value shell|dotenv`): two environments that differ only in the values of
   secrets (and in the contents of files) have the same rendering *)
Theorem C17_redacted_independent_of_secret :
  forall (path1 path2 : nat -> string) (vars1 vars2 files1 files2 : list entry),
  Forall2 public_eq vars1 vars2 -> Forall2 same_shape files1 files2 ->
  shell_script src_params true true path1 vars1 files1 = shell_script src_params true true path2 vars2 files2
  /\ dotenv_text src_params true true path1 vars1 files1 = dotenv_text src_params true true path2 vars2 files2.
Proof. exact (redacted_independent_of_secret src_params). Qed.

(* ... and a hidden secret is exported as the placeholder *)
Theorem C17_redacted_shows_placeholder : forall (vars : list entry) (e : entry) (t : string),
  In e vars -> e_secret e = true -> scalar_text src_params e = Some t ->
  In (e_key e, sp_secret src_params) (var_pairs src_params true vars).
Proof. exact (redacted_shows_placeholder src_params). Qed.

(* non-vacuity: a concrete value with every kind of special character *)
Definition ex_value : string := "pa$$w0rd `id` $(id) ""q"" 'q' \n \" +++ lf +++ hx "09c3a9ff1b" +++ " end".

Example C17_example :
  valid_name "DB_PASSWORD" = true /\ no_nul ex_value = true
  /\ render_shell src_params [("DB_PASSWORD", ex_value)]
     = "export DB_PASSWORD=""pa\$\$w0rd \`id\` \$(id) \""q\"" 'q' \\n \\" +++ lf +++ hx "09c3a9ff1b" +++ " end""" +++ lf
  /\ sh_eval (render_shell src_params [("DB_PASSWORD", ex_value)]) = Exports [("DB_PASSWORD", ex_value)].
Proof. exact (conj eq_refl (conj eq_refl (conj eq_refl eq_refl))). Qed.

(* non-vacuity of the redaction theorem: the hypotheses hold for two different secret values, and the common
   rendering shows the placeholder *)
Example C17_example_redacted :
  Forall2 public_eq (ex_var "hunter2") (ex_var "correct horse")
  /\ shell_script src_params true true (fun _ => "") (ex_var "hunter2") []
     = "export REGION=""eu-west-1""" +++ lf +++ "export TOKEN=""[secret]""" +++ lf.
Proof. exact (conj (ex_var_public_eq "hunter2" "correct horse") eq_refl). Qed.
