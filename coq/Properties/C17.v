(* Properties/C17.v — Shell output reproduces values exactly.
   Only statements closed by [exact]; the proofs live in Proofs/ShellProofs.v.
   [sh_eval] is the POSIX semantics of `export NAME=word` scripts of Model/Shell.v: [Exports l] means that evaluating
   the script performs exactly the exports [l] (in this order) and has no other effect. *)
From Verif Require Import Base.Bytes Model.Shell Src.SrcShell Proofs.ShellProofs.

(* the constants the Go source has today, as read by srcfacts on this run *)
Definition src_params : shell_params :=
  {| sp_prefix := shell_line_prefix; sp_suffix := shell_line_suffix; sp_sep := env_pair_sep;
     sp_escaped := shell_escaped_bytes; sp_secret := secret_placeholder;
     sp_unknown_path := unknown_path_placeholder; sp_unknown_value := unknown_value_text |}.

(* side conditions on the extracted constants, discharged by computation: lines are `export K=V` + newline, the bytes
   shellQuote escapes are exactly dollar, backquote, double quote and backslash, the placeholders contain no NUL *)
Theorem C17_src_params_ok : params_ok src_params = true.
Proof. exact (eq_refl true). Qed.

(* one variable: for every valid name and every byte string without NUL as value *)
Theorem C17_shell_faithful : forall k v : string, valid_name k = true -> no_nul v = true ->
  sh_eval (render_shell src_params [(k, v)]) = Exports [(k, v)].
Proof. exact (shell_faithful src_params C17_src_params_ok). Qed.

(* any number of variables *)
Theorem C17_shell_faithful_list : forall l : list (string * string), forallb pair_ok l = true ->
  sh_eval (render_shell src_params l) = Exports l.
Proof. exact (shell_faithful_list src_params C17_src_params_ok). Qed.

(* the whole command: `esc open --format shell` (redact = pretend = false) and `esc env get --value shell`
   (pretend = true), for any environmentVariables / files objects and any file-system naming of temporary files *)
Theorem C17_script_faithful :
  forall (redact pretend : bool) (path_of : nat -> string) (vars files : list entry),
  forallb entry_ok vars = true -> forallb entry_ok files = true -> (forall i, no_nul (path_of i) = true) ->
  sh_eval (shell_script src_params redact pretend path_of vars files)
  = Exports (env_pairs src_params redact pretend path_of vars files).
Proof. exact (fun r pr po vs fs => shell_script_faithful src_params r pr po vs fs C17_src_params_ok). Qed.

(* ... and in the resulting environment every scalar entry of environmentVariables has exactly its value
   (hidden secrets: the placeholder) *)
Theorem C17_exports_each_variable :
  forall (redact pretend : bool) (path_of : nat -> string) (vars files : list entry) (e : entry) (t : string),
  forallb entry_ok vars = true -> forallb entry_ok files = true -> (forall i, no_nul (path_of i) = true) ->
  NoDup (map e_key vars) -> ~ In (e_key e) (map e_key files) ->
  In e vars -> scalar_text src_params e = Some t ->
  exists l, sh_eval (shell_script src_params redact pretend path_of vars files) = Exports l
            /\ sh_lookup (e_key e) l = Some (if e_secret e && redact then sp_secret src_params else t).
Proof.
  exact (fun r pr po vs fs e t => shell_exports_each_var src_params r pr po vs fs e t C17_src_params_ok).
Qed.

(* the rendering before the repair (strconv.Quote for --format shell) violates the property *)
Theorem C17_old_quoting_refuted :
  exists k v s, valid_name k = true /\ no_nul v = true /\ old_shell_script src_params [(k, v)] = Some s
                /\ sh_eval s <> Exports [(k, v)].
Proof. exact (old_quoting_refuted src_params C17_src_params_ok). Qed.

Theorem C17_old_quoting_expands :
  exists s, old_shell_script src_params [("K", "$HOME")] = Some s /\ sh_eval s = OtherEffect.
Proof. exact (old_quoting_expands src_params C17_src_params_ok). Qed.

Theorem C17_old_quoting_changes_value :
  exists s, old_shell_script src_params [("K", "a" +++ lf +++ "b")] = Some s /\ sh_eval s = Exports [("K", "a\nb")].
Proof. exact (old_quoting_changes_value src_params C17_src_params_ok). Qed.

(* values of printable ASCII without dollar and backquote are rendered exactly as before the repair *)
Theorem C17_benign_rendering_unchanged : forall v : string, benign v = true ->
  go_quote v = Some (sh_quote (sp_escaped src_params) v).
Proof. exact (fun v => benign_rendering_unchanged src_params v C17_src_params_ok). Qed.

(* with secrets hidden (`esc env get --value shell|dotenv`): two environments that differ only in the values of
   secrets (and in the contents of files) have the same rendering *)
Theorem C17_redacted_independent_of_secret :
  forall (path1 path2 : nat -> string) (vars1 vars2 files1 files2 : list entry),
  Forall2 public_eq vars1 vars2 -> Forall2 same_shape files1 files2 ->
  shell_script src_params true true path1 vars1 files1 = shell_script src_params true true path2 vars2 files2
  /\ dotenv_text src_params true true path1 vars1 files1 = dotenv_text src_params true true path2 vars2 files2.
Proof. exact (redacted_independent_of_secret src_params). Qed.

(* ... and a hidden secret is exported as the placeholder *)
Theorem C17_redacted_shows_placeholder : forall (vars : list entry) (e : entry) (t : string),
  In e vars -> e_secret e = true -> scalar_text src_params e = Some t ->
  In (e_key e, sp_secret src_params) (var_pairs src_params true vars).
Proof. exact (redacted_shows_placeholder src_params). Qed.

(* non-vacuity: a concrete value with every kind of special character *)
Definition ex_value : string := "pa$$w0rd `id` $(id) ""q"" 'q' \n \" +++ lf +++ hx "09c3a9ff1b" +++ " end".

Example C17_example :
  valid_name "DB_PASSWORD" = true /\ no_nul ex_value = true
  /\ render_shell src_params [("DB_PASSWORD", ex_value)]
     = "export DB_PASSWORD=""pa\$\$w0rd \`id\` \$(id) \""q\"" 'q' \\n \\" +++ lf +++ hx "09c3a9ff1b" +++ " end""" +++ lf
  /\ sh_eval (render_shell src_params [("DB_PASSWORD", ex_value)]) = Exports [("DB_PASSWORD", ex_value)].
Proof. exact (conj eq_refl (conj eq_refl (conj eq_refl eq_refl))). Qed.

(* non-vacuity of the redaction theorem: the hypotheses hold for two different secret values, and the common
   rendering shows the placeholder *)
Example C17_example_redacted :
  Forall2 public_eq (ex_var "hunter2") (ex_var "correct horse")
  /\ shell_script src_params true true (fun _ => "") (ex_var "hunter2") []
     = "export REGION=""eu-west-1""" +++ lf +++ "export TOKEN=""[secret]""" +++ lf.
Proof. exact (conj (ex_var_public_eq "hunter2" "correct horse") eq_refl). Qed.
