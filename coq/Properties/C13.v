(* Properties/C13.v — `esc run` never forwards a secret in filtered output.
   Only statements closed by [exact]; the proofs live in Proofs/Redactor*.v.  The model (Model/Redactor.v) is the
   filter as repaired by fixes/1-redactor-overlapping-matches.patch; the behaviour before the repair is kept as
   [run_unrepaired] for the record of the defect. *)
From Verif Require Import Base.Bytes Model.Redactor Model.RedactorCollect Src.SrcRedactor Proofs.RedactorBase
  Proofs.RedactorStream Proofs.RedactorCover Proofs.RedactorEmit Proofs.RedactorMarks Proofs.RedactorProps
  Proofs.RedactorCollect.
From Coq Require Import Arith.
Local Open Scope nat_scope.

(* the parameters the Go source has today, as read by srcfacts on this run: `len(s) >= 3`, "[secret]" *)
Definition src_params : rparams :=
  {| rp_min_len := N.to_nat min_secret_len; rp_placeholder := chars secret_placeholder |}.

Notation ph := (rp_placeholder src_params).
Notation filtered := (new_replacer src_params).

(* side conditions on the extracted constants, discharged by computation: empty secrets are never handed to the
   automaton, and the placeholder is not empty *)
Theorem C13_src_params_wf : 1 <= rp_min_len src_params /\ ph <> [].
Proof. exact (params_check_ok src_params eq_refl). Qed.

(* "at least three bytes long": the threshold in the source is not above the property's *)
Theorem C13_src_threshold : rp_min_len src_params <= 3.
Proof. exact (threshold_check_ok src_params 3 eq_refl). Qed.

(* what newReplacer keeps *)
Theorem C13_filtered_spec : forall secrets p,
  In p (filtered secrets) <-> In p secrets /\ rp_min_len src_params <= length p.
Proof. exact (filtered_spec src_params). Qed.

(* the meaning of the line decomposition used below *)
Theorem C13_split_lines_characterised : forall s ls r, split_lines s = (ls, r) ->
  s = concat ls ++ r
  /\ Forall (fun l => exists body, l = body ++ [nl] /\ Forall (fun c => is_nl c = false) body) ls
  /\ Forall (fun c => is_nl c = false) r.
Proof. exact split_lines_characterised. Qed.

(* for EVERY way of splitting the command's output into Write calls (any number of chunks, empty chunks included),
   what has reached the underlying writer after Close is what a single Write of the whole stream produces *)
Theorem C13_chunking_irrelevant : forall secrets chunks,
  run src_params secrets chunks = run src_params secrets [concat chunks].
Proof. exact (chunking_irrelevant src_params). Qed.

(* the output is the redaction of each complete line, in order, followed by the redaction of the unterminated rest *)
Theorem C13_output_is_linewise : forall secrets chunks,
  run src_params secrets chunks =
  let (ls, r) := split_lines (concat chunks) in
  concat (map (redact ph (filtered secrets)) ls) ++ redact ph (filtered secrets) r.
Proof. exact (output_is_linewise src_params). Qed.

(* text in which no filtered secret occurs is forwarded unchanged (whatever the secrets are, multi-line included) *)
Theorem C13_clean_text_unchanged : forall secrets chunks,
  (forall p, In p (filtered secrets) -> ~ occurs p (concat chunks)) ->
  run src_params secrets chunks = concat chunks.
Proof. exact (clean_text_unchanged src_params). Qed.

(* once the command has ended (Close): the line buffer is empty; the output is the output loop [emit] run over the
   whole input with one (covered, joined) flag pair per input byte - an uncovered byte is forwarded as it is, in
   order, and a run of covered bytes is replaced by the placeholder; and a byte is covered only if it lies inside an
   occurrence of a filtered secret in the input.  So nothing but bytes of secrets is withheld. *)
Theorem C13_nothing_withheld_after_close : forall secrets chunks,
  let s := concat chunks in
  let fl := stream_flags (filtered secrets) s in
  snd (run_chunks ph (filtered secrets) [] chunks) = []
  /\ run src_params secrets chunks = emit ph false s fl
  /\ length fl = length s
  /\ forall i, nth i (map fst fl) false = true ->
       exists p a b, In p (filtered secrets) /\ s = a ++ p ++ b /\ length a <= i < length a + length p.
Proof. exact (nothing_withheld_after_close src_params). Qed.

(* every byte of every occurrence (overlapping, nested, adjacent ones included) of a secret of at least the threshold
   length that has no newline before its last byte is covered, i.e. not forwarded - at whatever position of the
   stream the occurrence is and however the stream is chunked (the flags depend on the stream only) *)
Theorem C13_no_secret_byte_forwarded : forall secrets a p b,
  In p secrets -> rp_min_len src_params <= length p -> has_inner_newline p = false ->
  firstn (length p) (skipn (length a) (map fst (stream_flags (filtered secrets) (a ++ p ++ b)))) =
  repeat true (length p).
Proof. exact (no_secret_byte_forwarded src_params). Qed.

(* the code as written - collect the matches of IterOverlapping (modelled as: every occurrence of every pattern, see
   C13_overlapping_reports_occurrences), fill the covered/joined arrays, run the output loop - computes the same text
   as the one-pass definition [redact] that the theorems above are stated with *)
Theorem C13_redact_as_coded : forall pats t, redact_marks ph pats t = redact ph pats t.
Proof. exact (redact_marks_redact ph). Qed.

Theorem C13_overlapping_reports_occurrences : forall pats t m, In m (lib_overlapping pats t) <->
  exists p a b, In p pats /\ p <> [] /\ t = a ++ p ++ b /\ m = {| m_start := length a; m_len := length p |}.
Proof. exact lib_overlapping_In. Qed.

(* the full byte-level statement: no filtered secret (that cannot be confused with placeholder text) occurs in the
   output ... *)
Definition C13_no_secret_survives_full : Prop := forall secrets chunks p,
  In p secrets -> rp_min_len src_params <= length p -> indep ph p = true ->
  ~ occurs p (run src_params secrets chunks).

(* ... is refuted by the line-buffered design: a secret with a newline inside is never matched *)
Theorem C13_multiline_refuted : ~ C13_no_secret_survives_full.
Proof. exact (fun H => H [chars "ab" ++ [nl] ++ chars "cd"] [chars "ab" ++ [nl]; chars "cd"]
                         (chars "ab" ++ [nl] ++ chars "cd") (or_introl eq_refl) (le_S _ _ (le_S _ _ (le_n 3))) eq_refl
                         (ex_intro _ [] (ex_intro _ [] eq_refl))). Qed.

(* ... and holds for every secret outside that class (the recorded known finding C13-newline) *)
Theorem C13_no_secret_survives_partial : forall secrets chunks p,
  In p secrets -> rp_min_len src_params <= length p -> has_inner_newline p = false -> indep ph p = true ->
  ~ occurs p (run src_params secrets chunks).
Proof. exact (no_secret_survives src_params). Qed.

(* the defect repaired by the fix: before it, overlapping occurrences made the library's ReplaceAllFunc panic *)
Theorem C13_unrepaired_overlap_panics :
  run_unrepaired src_params [chars "aaa"] [chars "aaaa"] = Panic
  /\ run_unrepaired src_params [chars "abcd"; chars "bcde"] [chars "abcde"] = Panic
  /\ run src_params [chars "aaa"] [chars "aaaa"] = chars "[secret]"
  /\ run src_params [chars "abcd"; chars "bcde"] [chars "abcde"] = chars "[secret]".
Proof. exact (conj eq_refl (conj eq_refl (conj eq_refl eq_refl))). Qed.

(* ---- which secrets reach the filter (RunE, PrepareEnvironment) ------------------------------------------------- *)
(* side condition on the source: the secrets of an interpolated argument are collected from the referenced value and
   everything nested in it (appendSecrets, fixes/2-run-nested-argument-secrets.patch) *)
Theorem C13_src_collects_nested : arg_secrets_deep = true.
Proof. exact eq_refl. Qed.

(* secret environment variables, secret file contents, and every secret value inside a value interpolated into the
   command line are handed to the filter *)
Theorem C13_all_secrets_collected : forall root args p,
  env_secret true root args p -> In p (cmd_secrets arg_secrets_deep root args).
Proof. exact (all_secrets_collected_src arg_secrets_deep C13_src_collects_nested). Qed.

(* the whole command: none of them (of at least the threshold length, without a newline before its last byte, not
   confusable with placeholder text) occurs in what esc forwards, whatever the command prints after its arguments *)
Theorem C13_cmd_no_secret_survives_partial : forall root args script p,
  env_secret true root args p ->
  rp_min_len src_params <= length p -> has_inner_newline p = false -> indep ph p = true ->
  ~ occurs p (cmd_out src_params arg_secrets_deep root args script).
Proof. exact (cmd_no_secret_survives_src src_params arg_secrets_deep C13_src_collects_nested). Qed.

(* however the command ends - exit status 0, a non-zero exit status or any other error after it has written its
   output, or a failure to start - what esc forwards on each stream is the output loop run over EVERYTHING the command
   wrote to that stream (nothing is withheld on the error path, the forwarded bytes do not depend on the exit status),
   and esc fails exactly when running the command failed *)
Theorem C13_cmd_nothing_withheld_however_it_ends : forall root args e script script2,
  let secrets := cmd_secrets arg_secrets_deep root args in
  let w1 := child_wrote e (cmd_stream (cmd_args root args) script) in
  let w2 := child_wrote e script2 in
  cmd_run src_params arg_secrets_deep root args e script script2 =
    (emit ph false w1 (stream_flags (filtered secrets) w1),
     emit ph false w2 (stream_flags (filtered secrets) w2),
     child_failed e).
Proof. exact (cmd_run_streams src_params arg_secrets_deep). Qed.

(* ... and no secret of the environment occurs in either stream *)
Theorem C13_cmd_streams_no_secret_survives_partial : forall root args e script script2 p,
  env_secret true root args p ->
  rp_min_len src_params <= length p -> has_inner_newline p = false -> indep ph p = true ->
  let r := cmd_run src_params arg_secrets_deep root args e script script2 in
  ~ occurs p (fst (fst r)) /\ ~ occurs p (snd (fst r)).
Proof. exact (cmd_run_no_secret_survives_src src_params arg_secrets_deep C13_src_collects_nested). Qed.

(* the defect repaired by fix 2: collecting only the referenced value's own flag lets a nested secret through *)
Theorem C13_unrepaired_nested_arg_secret_forwarded :
  env_secret true leak_root leak_args (chars "nested99")
  /\ has_inner_newline (chars "nested99") = false
  /\ occurs (chars "nested99") (cmd_out src_params false leak_root leak_args []).
Proof. exact (flat_collection_leaks src_params). Qed.

(* non-vacuity: a secret split across two writes and across no line; nested and adjacent secrets; the hypotheses of
   the partial theorem hold for an ordinary secret *)
Example C13_example :
  run src_params [chars "hunter2"; chars "pw"] [chars "pw: hun"; chars "ter2" ++ [nl] ++ chars "rest"]
    = chars "pw: [secret]" ++ [nl] ++ chars "rest"
  /\ run src_params [chars "abcde"; chars "bcd"] [chars "xabcdey"] = chars "x[secret]y"
  /\ run src_params [chars "abc"; chars "def"] [chars "abcdef"] = chars "[secret][secret]"
  /\ (In (chars "hunter2") [chars "hunter2"; chars "pw"] /\ rp_min_len src_params <= length (chars "hunter2")
      /\ has_inner_newline (chars "hunter2") = false /\ indep ph (chars "hunter2") = true)
  /\ cmd_out src_params arg_secrets_deep leak_root leak_args (chars "nested99 bob")
      = chars "db=""password""=""[secret]"",""user""=""bob""" ++ [nl] ++ chars "[secret] bob".
Proof. exact (conj eq_refl (conj eq_refl (conj eq_refl (conj
              (conj (or_introl eq_refl) (conj (le_S _ _ (le_S _ _ (le_S _ _ (le_S _ _ (le_n 3))))) (conj eq_refl eq_refl)))
              eq_refl)))). Qed.
