(* Properties/C13.v — `esc run` never forwards a secret in filtered output.
   Only statements closed by [exact]; the proofs live in Proofs/Redactor*.v.  The model (Model/Redactor.v) is the
   filter as repaired by fixes/1-redactor-overlapping-matches.patch; the behaviour before the repair is kept as
   [run_unrepaired] for the record of the defect. *)
From Verif Require Import Base.Bytes Model.Redactor Model.RedactorCollect Src.SrcRedactor Proofs.RedactorBase
  Proofs.RedactorStream Proofs.RedactorCover Proofs.RedactorEmit Proofs.RedactorMarks Proofs.RedactorFast
  Proofs.RedactorProps Proofs.RedactorClash Proofs.RedactorCollect.
From Coq Require Import Arith.
Local Open Scope nat_scope.

(* the parameters the Go source has today, as read by srcfacts on this run: `len(s) >= 3`, "[secret]" *)
Definition src_params : rparams :=
  {| rp_min_len := N.to_nat min_secret_len; rp_placeholder := chars secret_placeholder |}.

Notation ph := (rp_placeholder src_params).
Notation filtered := (new_replacer src_params).

(* side conditions on the extracted constants, discharged by computation: empty secrets are never handed to the
   automaton, and the placeholder is not empty *)
Theorem C13_src_params_wf : 1 <= rp_min_len src_params /\ ph <> [].
Proof. exact (params_check_ok src_params eq_refl). Qed.

(* "at least three bytes long": the threshold in the source is not above the property's *)
Theorem C13_src_threshold : rp_min_len src_params <= 3.
Proof. exact (threshold_check_ok src_params 3 eq_refl). Qed.

(* what newReplacer keeps *)
Theorem C13_filtered_spec : forall secrets p,
  In p (filtered secrets) <-> In p secrets /\ rp_min_len src_params <= length p.
Proof. exact (filtered_spec src_params). Qed.

(* the meaning of the line decomposition used below *)
Theorem C13_split_lines_characterised : forall s ls r, split_lines s = (ls, r) ->
  s = concat ls ++ r
  /\ Forall (fun l => exists body, l = body ++ [nl] /\ Forall (fun c => is_nl c = false) body) ls
  /\ Forall (fun c => is_nl c = false) r.
Proof. exact split_lines_characterised. Qed.

(* for EVERY way of splitting the command's output into Write calls (any number of chunks, empty chunks included),
   what has reached the underlying writer after Close is what a single Write of the whole stream produces *)
Theorem C13_chunking_irrelevant : forall secrets chunks,
  run src_params secrets chunks = run src_params secrets [concat chunks].
Proof. exact (chunking_irrelevant src_params). Qed.

(* the output is the redaction of each complete line, in order, followed by the redaction of the unterminated rest *)
Theorem C13_output_is_linewise : forall secrets chunks,
  run src_params secrets chunks =
  let (ls, r) := split_lines (concat chunks) in
  concat (map (redact ph (filtered secrets)) ls) ++ redact ph (filtered secrets) r.
Proof. exact (output_is_linewise src_params). Qed.

(* text in which no filtered secret occurs is forwarded unchanged (whatever the secrets are, multi-line included) *)
Theorem C13_clean_text_unchanged : forall secrets chunks,
  (forall p, In p (filtered secrets) -> ~ occurs p (concat chunks)) ->
  run src_params secrets chunks = concat chunks.
Proof. exact (clean_text_unchanged src_params). Qed.

(* once the command has ended (Close): the line buffer is empty; the output is the output loop [emit] run over the
   whole input with one (covered, joined) flag pair per input byte - an uncovered byte is forwarded as it is, in
   order, and a run of covered bytes is replaced by the placeholder; and a byte is covered only if it lies inside an
   occurrence of a filtered secret in the input.  So nothing but bytes of secrets is withheld. *)
Theorem C13_nothing_withheld_after_close : forall secrets chunks,
  let s := concat chunks in
  let fl := stream_flags (filtered secrets) s in
  snd (run_chunks ph (filtered secrets) [] chunks) = []
  /\ run src_params secrets chunks = emit ph false s fl
  /\ length fl = length s
  /\ forall i, nth i (map fst fl) false = true ->
       exists p a b, In p (filtered secrets) /\ s = a ++ p ++ b /\ length a <= i < length a + length p.
Proof. exact (nothing_withheld_after_close src_params). Qed.

(* every byte of every occurrence (overlapping, nested, adjacent ones included) of a secret of at least the threshold
   length that has no newline before its last byte is covered, i.e. not forwarded - at whatever position of the
   stream the occurrence is and however the stream is chunked (the flags depend on the stream only) *)
Theorem C13_no_secret_byte_forwarded : forall secrets a p b,
  In p secrets -> rp_min_len src_params <= length p -> has_inner_newline p = false ->
  firstn (length p) (skipn (length a) (map fst (stream_flags (filtered secrets) (a ++ p ++ b)))) =
  repeat true (length p).
Proof. exact (no_secret_byte_forwarded src_params). Qed.

(* the code as written - collect the matches of IterOverlapping (modelled as: every occurrence of every pattern, see
   C13_overlapping_reports_occurrences), fill the covered/joined arrays, run the output loop - computes the same text
   as the one-pass definition [redact] that the theorems above are stated with *)
Theorem C13_redact_as_coded : forall pats t, redact_marks ph pats t = redact ph pats t.
Proof. exact (redact_marks_redact ph). Qed.

Theorem C13_overlapping_reports_occurrences : forall pats t m, In m (lib_overlapping pats t) <->
  exists p a b, In p pats /\ p <> [] /\ t = a ++ p ++ b /\ m = {| m_start := length a; m_len := length p |}.
Proof. exact lib_overlapping_In. Qed.

(* ---- the byte-level statement ------------------------------------------------------------------------------------
   FULL: no filtered secret occurs in the output.  It is false for two classes of secrets, each shown necessary below:
     (a) has_inner_newline p - the line-buffered design never matches a secret with a newline before its last byte
         (a genuine defect of esc: known finding C13-newline);
     (b) ph_clash ph p       - the secret can be spelled with placeholder text: it lies inside "[secret]", contains
         "[secret]", ends with a non-empty beginning of "[secret]" or begins with a non-empty end of it.  This is a limit
         of the byte-level FORMULATION, not a leak (the placeholder text is a constant): secret `sec` on input `sec` gives
         `[secret]`, which contains `sec`.  The flag-level theorems above (C13_no_secret_byte_forwarded,
         C13_nothing_withheld_after_close) hold for these secrets too.
   [C13_no_secret_survives excl] is the statement with the secrets in [excl] left out. *)
Definition C13_no_secret_survives (excl : bytes -> bool) : Prop := forall secrets chunks p,
  In p secrets -> rp_min_len src_params <= length p -> excl p = false ->
  ~ occurs p (run src_params secrets chunks).

Definition C13_no_secret_survives_full : Prop := C13_no_secret_survives (fun _ => false).

(* refuted even when class (b) is left out: a secret with a newline inside is never matched *)
Theorem C13_multiline_refuted : ~ C13_no_secret_survives (ph_clash ph).
Proof. exact (fun H => H [chars "ab" ++ [nl] ++ chars "cd"] [chars "ab" ++ [nl]; chars "cd"]
                         (chars "ab" ++ [nl] ++ chars "cd") (or_introl eq_refl) (le_S _ _ (le_S _ _ (le_n 3))) eq_refl
                         (ex_intro _ [] (ex_intro _ [] eq_refl))). Qed.

(* refuted even when class (a) is left out: one witness for each of the four ways of clashing with the placeholder
   (inside it; containing it; ending with a beginning of it; beginning with an end of it) *)
Theorem C13_placeholder_clash_refuted : ~ C13_no_secret_survives has_inner_newline.
Proof. exact (fun H => H [chars "sec"] [chars "sec"] (chars "sec") (or_introl eq_refl) (le_n 3) eq_refl
                         (ex_intro _ (chars "[") (ex_intro _ (chars "ret]") eq_refl))). Qed.

Theorem C13_placeholder_clash_each_way :
     occurs (chars "sec") (run src_params [chars "sec"; chars "AAA"] [chars "AAA"])
  /\ occurs (chars "x[secret]y") (run src_params [chars "x[secret]y"; chars "AAA"] [chars "xAAAy"])
  /\ occurs (chars "ab[") (run src_params [chars "ab["; chars "AAA"] [chars "abAAA"])
  /\ occurs (chars "]xy") (run src_params [chars "]xy"; chars "AAA"] [chars "AAAxy"])
  /\ ph_clash ph (chars "sec") = true /\ ph_clash ph (chars "x[secret]y") = true
  /\ ph_clash ph (chars "ab[") = true /\ ph_clash ph (chars "]xy") = true.
Proof. exact (conj (ex_intro _ (chars "[") (ex_intro _ (chars "ret]") eq_refl))
             (conj (ex_intro _ [] (ex_intro _ [] eq_refl))
             (conj (ex_intro _ [] (ex_intro _ (chars "secret]") eq_refl))
             (conj (ex_intro _ (chars "[secret") (ex_intro _ [] eq_refl))
             (conj eq_refl (conj eq_refl (conj eq_refl eq_refl))))))). Qed.

(* ... and it holds for every secret outside the two classes *)
Theorem C13_no_secret_survives_partial :
  C13_no_secret_survives (fun p => has_inner_newline p || ph_clash ph p).
Proof. exact (fun secrets chunks p Hin Hlen Hex =>
                no_secret_survives src_params secrets chunks p Hin Hlen
                  (proj1 (proj1 (Bool.orb_false_iff _ _) Hex)) (proj2 (proj1 (Bool.orb_false_iff _ _) Hex))). Qed.

(* class (b) is exact on a bounded family: for EVERY secret of 3 to 5 bytes over the alphabet { [ s t ] a } (3 875
   strings) that clashes with the placeholder there is a run of the filter - found by [clash_witness]: the secret itself,
   or a prefix and a suffix of it around another secret - whose output contains it *)
Theorem C13_placeholder_clash_exact_bounded : forall p,
  In p (words clash_alphabet 5) -> rp_min_len src_params <= length p -> ph_clash ph p = true ->
  exists secrets chunks, In p secrets /\ occurs p (run src_params secrets chunks).
Proof. exact (clash_exact_bounded src_params 5 (eq_refl true <: clash_check src_params 5 = true)). Qed.

(* the class that the first version of this development left out (no `[`, no `]`, not a piece of the placeholder) was
   coarser: everything it admitted is still admitted, and e.g. bracketed texts are now covered by the theorem *)
Theorem C13_clash_class_narrower : forall p, indep ph p = true -> ph_clash ph p = false.
Proof. exact (indep_no_clash ph). Qed.

Example C13_clash_class_examples :
     ph_clash ph (chars "[""a"",""b""]") = false /\ indep ph (chars "[""a"",""b""]") = false
  /\ ph_clash ph (chars "fe80::1]") = false /\ ph_clash ph (chars "[x]") = false
  /\ ph_clash ph (chars "secret") = true /\ ph_clash ph (chars "x[") = true.
Proof. exact (conj eq_refl (conj eq_refl (conj eq_refl (conj eq_refl (conj eq_refl eq_refl))))). Qed.

(* the linear-time definition the correspondence evaluates on lines of any length is the filter *)
Theorem C13_fast_run_is_run : forall secrets chunks, run_fast src_params secrets chunks = run src_params secrets chunks.
Proof. exact (run_fast_run src_params). Qed.

(* the defect repaired by the fix: before it, overlapping occurrences made the library's ReplaceAllFunc panic *)
Theorem C13_unrepaired_overlap_panics :
  run_unrepaired src_params [chars "aaa"] [chars "aaaa"] = Panic
  /\ run_unrepaired src_params [chars "abcd"; chars "bcde"] [chars "abcde"] = Panic
  /\ run src_params [chars "aaa"] [chars "aaaa"] = chars "[secret]"
  /\ run src_params [chars "abcd"; chars "bcde"] [chars "abcde"] = chars "[secret]".
Proof. exact (conj eq_refl (conj eq_refl (conj eq_refl eq_refl))). Qed.

(* ---- which secrets reach the filter (RunE, PrepareEnvironment) ------------------------------------------------- *)
(* side condition on the source: the secrets of an interpolated argument are collected from the referenced value and
   everything nested in it (appendSecrets, fixes/2-run-nested-argument-secrets.patch) *)
Theorem C13_src_collects_nested : arg_secrets_deep = true.
Proof. exact eq_refl. Qed.

(* secret environment variables, secret file contents, and every secret value inside a value interpolated into the
   command line are handed to the filter *)
Theorem C13_all_secrets_collected : forall root args p,
  env_secret true root args p -> In p (cmd_secrets arg_secrets_deep root args).
Proof. exact (all_secrets_collected_src arg_secrets_deep C13_src_collects_nested). Qed.

(* the whole command: none of them (of at least the threshold length, without a newline before its last byte, not
   confusable with placeholder text) occurs in what esc forwards, whatever the command prints after its arguments *)
Theorem C13_cmd_no_secret_survives_partial : forall root args script p,
  env_secret true root args p ->
  rp_min_len src_params <= length p -> has_inner_newline p = false -> ph_clash ph p = false ->
  ~ occurs p (cmd_out src_params arg_secrets_deep root args script).
Proof. exact (cmd_no_secret_survives_src src_params arg_secrets_deep C13_src_collects_nested). Qed.

(* side condition on the source: both redactors are closed by deferred calls, i.e. on every path out of RunE *)
Theorem C13_src_redactors_closed_on_every_path : redactors_closed_on_every_path = true.
Proof. exact eq_refl. Qed.

(* The whole command as the Write/Close state machine it is ([cmd_run_sm]): the child makes ANY sequence of Write calls
   on each stream - every chunking [ch1] of its argument line and script, every chunking [ch2] of what it writes to the
   other stream - and then ends in any of the three ways: exit status 0, a non-zero exit status or any other error after
   it has written its output, or a failure to start.  With the redactors closed on every path (read from the source),
   what esc has forwarded on each stream when RunE returns is the output loop run over EVERYTHING the command wrote to
   that stream, no byte is left in a line buffer (nothing is withheld on the error path; the forwarded bytes depend
   neither on the chunking nor on the exit status), and esc fails exactly when running the command failed.
   (The first version of this theorem only unfolded the definition of the single-write abbreviation [cmd_run].) *)
Theorem C13_cmd_nothing_withheld_however_it_ends : forall root args e script script2 ch1 ch2,
  concat ch1 = cmd_stream (cmd_args root args) script -> concat ch2 = script2 ->
  let pats := filtered (cmd_secrets arg_secrets_deep root args) in
  let w1 := child_wrote e (cmd_stream (cmd_args root args) script) in
  let w2 := child_wrote e script2 in
  cmd_run_sm src_params arg_secrets_deep redactors_closed_on_every_path root args e ch1 ch2 =
    ((emit ph false w1 (stream_flags pats w1), []), (emit ph false w2 (stream_flags pats w2), []), child_failed e).
Proof. exact (cmd_run_sm_streams_src src_params arg_secrets_deep redactors_closed_on_every_path
                C13_src_redactors_closed_on_every_path). Qed.

(* the hypothesis on the source is needed: were Close reached only after a successful exec.Run, a failing command's
   unterminated last line would stay in the buffer (nothing forwarded, 17 bytes withheld) *)
Theorem C13_cmd_close_only_on_success_withholds :
  let r := cmd_run_sm src_params true false (VObj false []) [] ChildFails [chars "fatal: no newline"] [] in
  fst (fst (fst r)) = [] /\ snd (fst (fst r)) = chars "fatal: no newline".
Proof. exact (close_only_on_success_withholds src_params). Qed.

(* [cmd_run], which the correspondence compares with the implementation, is that state machine for every chunking *)
Theorem C13_cmd_run_is_state_machine : forall root args e script script2 ch1 ch2,
  concat ch1 = cmd_stream (cmd_args root args) script -> concat ch2 = script2 ->
  let r := cmd_run_sm src_params arg_secrets_deep true root args e ch1 ch2 in
  cmd_run src_params arg_secrets_deep root args e script script2 = (fst (fst (fst r)), fst (snd (fst r)), snd r).
Proof. exact (cmd_run_sm_cmd_run src_params arg_secrets_deep). Qed.

(* ... and no secret of the environment occurs in either stream *)
Theorem C13_cmd_streams_no_secret_survives_partial : forall root args e script script2 p,
  env_secret true root args p ->
  rp_min_len src_params <= length p -> has_inner_newline p = false -> ph_clash ph p = false ->
  let r := cmd_run src_params arg_secrets_deep root args e script script2 in
  ~ occurs p (fst (fst r)) /\ ~ occurs p (snd (fst r)).
Proof. exact (cmd_run_no_secret_survives_src src_params arg_secrets_deep C13_src_collects_nested). Qed.

(* the defect repaired by fix 2: collecting only the referenced value's own flag lets a nested secret through *)
Theorem C13_unrepaired_nested_arg_secret_forwarded :
  env_secret true leak_root leak_args (chars "nested99")
  /\ has_inner_newline (chars "nested99") = false
  /\ occurs (chars "nested99") (cmd_out src_params false leak_root leak_args []).
Proof. exact (flat_collection_leaks src_params). Qed.

(* non-vacuity: a secret split across two writes and across no line; nested and adjacent secrets; the hypotheses of
   the partial theorem hold for an ordinary secret *)
Example C13_example :
  run src_params [chars "hunter2"; chars "pw"] [chars "pw: hun"; chars "ter2" ++ [nl] ++ chars "rest"]
    = chars "pw: [secret]" ++ [nl] ++ chars "rest"
  /\ run src_params [chars "abcde"; chars "bcd"] [chars "xabcdey"] = chars "x[secret]y"
  /\ run src_params [chars "abc"; chars "def"] [chars "abcdef"] = chars "[secret][secret]"
  /\ (In (chars "hunter2") [chars "hunter2"; chars "pw"] /\ rp_min_len src_params <= length (chars "hunter2")
      /\ has_inner_newline (chars "hunter2") = false /\ ph_clash ph (chars "hunter2") = false)
  /\ cmd_out src_params arg_secrets_deep leak_root leak_args (chars "nested99 bob")
      = chars "db=""password""=""[secret]"",""user""=""bob""" ++ [nl] ++ chars "[secret] bob".
Proof. exact (conj eq_refl (conj eq_refl (conj eq_refl (conj
              (conj (or_introl eq_refl) (conj (le_S _ _ (le_S _ _ (le_S _ _ (le_S _ _ (le_n 3))))) (conj eq_refl eq_refl)))
              eq_refl)))). Qed.
