(* Properties/C11_src.v — side conditions of C11 on the SOURCE of the evaluator: the behaviour tables that
   harness/cmd/srcfacts/evalcore.go reads out of eval/value.go, eval/eval.go, eval/crypt.go and environment.go on every run
   (coq/Src/SrcEval.v) are the ones the models Model/Chain.v / Model/Eval.v were written against (Proofs/EvalSrc.v, where
   each table is listed next to the model definition it is the source of).  What C11 rests on: decodeCiphertext dominates the evaluator's only Decrypt and yields its operand; a decode error is diagnostic + unknown; DecryptSecrets hands the decrypter nothing but decoded envelopes.
   Statements only, closed by [exact]; decided by computation. *)
From Verif Require Import Base.Bytes Src.SrcEval Proofs.EvalSrc Proofs.EvalSrcSecret Proofs.EvalSrcDecryptDoc.

Theorem C11_src_secret_builtin : eval_src_secret_ok = true.
Proof. exact eval_src_secret_ok_true. Qed.

Theorem C11_src_decrypt_secrets_document : eval_src_decrypt_doc_ok = true.
Proof. exact eval_src_decrypt_doc_ok_true. Qed.
