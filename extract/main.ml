(* Generic driver of the extracted model runner: one s-expression line in, one verdict line out.
   [Mr] is the module extracted from Corr/<property>.v (function run_line : string -> string over Coq's
   own string/ascii inductives; only bool/option/list/prod/unit/sumbool are mapped to OCaml natives by
   ExtrOcamlBasic, no Extract Constant is used). *)
let ascii_tbl =
  Array.init 256 (fun n ->
      let b i = (n lsr i) land 1 = 1 in
      Mr.Ascii (b 0, b 1, b 2, b 3, b 4, b 5, b 6, b 7))

let to_coq (s : string) =
  let r = ref Mr.EmptyString in
  for i = String.length s - 1 downto 0 do
    r := Mr.String (ascii_tbl.(Char.code s.[i]), !r)
  done;
  !r

let of_ascii (Mr.Ascii (b0, b1, b2, b3, b4, b5, b6, b7)) =
  let v b i = if b then 1 lsl i else 0 in
  Char.chr (v b0 0 + v b1 1 + v b2 2 + v b3 3 + v b4 4 + v b5 5 + v b6 6 + v b7 7)

let of_coq s =
  let buf = Buffer.create 16 in
  let rec go = function
    | Mr.EmptyString -> ()
    | Mr.String (a, r) -> Buffer.add_char buf (of_ascii a); go r
  in
  go s; Buffer.contents buf

let () =
  try
    while true do
      let l = input_line stdin in
      let out = try of_coq (Mr.run_line (to_coq l)) with Stack_overflow -> "17" in
      print_endline out
    done
  with End_of_file -> ()
