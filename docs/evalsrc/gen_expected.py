#!/usr/bin/env python3
"""Helper for coq/Proofs/EvalSrc.v: prints the `exp_*` definitions (the behaviour tables the evaluator models were written
against) from a coq/Src/SrcEval.v, as plain Coq strings; with a second argument, rewrites those definitions in place.

    gen_expected.py coq/Src/SrcEval.v                      # print
    gen_expected.py coq/Src/SrcEval.v coq/Proofs/EvalSrc.v  # update the exp_* blocks of EvalSrc.v

Use ONLY after the source change that made a table differ has been reviewed against the model definition named in the
comment of that table (and the model has been changed, if the behaviour changed): updating the expectation is the act of
saying "the model still restates this function"."""
import re, sys


def cq(s):
    return '"' + s.replace('"', '""') + '"'


def blocks(txt):
    out = {}
    for m in re.finditer(r'Definition (ev_\w+) : list string := \[\n(.*?)\n\]\.', txt, re.S):
        items = [bytes.fromhex(h).decode() for h in re.findall(r'\(hx "([0-9a-f]*)"\)', m.group(2))]
        name = "exp_" + m.group(1)[3:]
        out[name] = "Definition %s : list string := [\n  %s\n]." % (name, ";\n  ".join(cq(i) for i in items))
    for m in re.finditer(r'Definition (ev_\w+) : list \(string \* string\) := \[\n(.*?)\n\]\.', txt, re.S):
        rows = re.findall(r'\(\(hx "([0-9a-f]*)"\), \(hx "([0-9a-f]*)"\)\)', m.group(2))
        items = ["(%s, %s)" % (cq(bytes.fromhex(a).decode()), cq(bytes.fromhex(b).decode())) for a, b in rows]
        name = "exp_" + m.group(1)[3:]
        out[name] = "Definition %s : list (string * string) := [\n  %s\n]." % (name, ";\n  ".join(items))
    return out


def main():
    b = blocks(open(sys.argv[1]).read())
    if len(sys.argv) < 3:
        print("\n".join(b.values()))
        return
    p = sys.argv[2]
    txt = open(p).read()
    for name, new in b.items():
        pat = re.compile(r'Definition %s : list [^\n]* := \[\n.*?\n\]\.' % re.escape(name), re.S)
        if not pat.search(txt):
            sys.stderr.write("no block for %s in %s\n" % (name, p))
            continue
        txt = pat.sub(lambda _m: new, txt, count=1)
    open(p, "w").write(txt)


main()
