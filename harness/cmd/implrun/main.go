// implrun runs the implementation (pulumi/esc built from the working tree, hooks on) on cases read
// as JSON lines from stdin and writes one JSON line of projected observations per case.
package main

import (
	"bufio"
	"encoding/json"
	"fmt"
	"os"
	"runtime/debug"
)

type handler func(c map[string]any) map[string]any

var handlers = map[string]handler{}

func register(prop string, h handler) { handlers[prop] = h }

func runOne(h handler, c map[string]any) (res map[string]any) {
	defer func() {
		if r := recover(); r != nil {
			res = map[string]any{"panic": fmt.Sprint(r), "stack": string(debug.Stack())}
		}
	}()
	return h(c)
}

func main() {
	if len(os.Args) < 2 {
		fmt.Fprintln(os.Stderr, "usage: implrun <property>  (cases on stdin)")
		os.Exit(2)
	}
	h, ok := handlers[os.Args[1]]
	if !ok {
		fmt.Fprintln(os.Stderr, "unknown property", os.Args[1])
		os.Exit(2)
	}
	// a runaway recursion should die quickly (the default limit of 1 GB takes seconds to exhaust)
	debug.SetMaxStack(128 << 20)
	in := bufio.NewReaderSize(os.Stdin, 1<<20)
	w := bufio.NewWriterSize(os.Stdout, 1<<20)
	defer w.Flush()
	dec := json.NewDecoder(in)
	dec.UseNumber()
	enc := json.NewEncoder(w)
	for {
		var c map[string]any
		if err := dec.Decode(&c); err != nil {
			break
		}
		hh := h
		if name, ok := c["_h"].(string); ok {
			if alt, ok := handlers[name]; ok {
				hh = alt
			}
		}
		res := runOne(hh, c)
		res["id"] = c["id"]
		enc.Encode(res)
		w.Flush() // one line per case, so that a fatal crash leaves the finished cases readable
		if res["_exit"] == true {
			// a runaway goroutine (hang) is still consuming CPU and memory: report and leave; the driver restarts us
			os.Exit(0)
		}
	}
}

func str(c map[string]any, k string) string {
	s, _ := c[k].(string)
	return s
}
