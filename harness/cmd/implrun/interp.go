package main

// Handler "INTERP": ast.Interpolate on an arbitrary byte string; reports the parts (text, accessors), the number of
// diagnostics and PropertyAccess.String() of every access.  Used by the C02 check to tie Model/Interp.v to the parser.

import (
	"encoding/hex"

	"github.com/pulumi/esc/ast"
)

func init() { register("INTERP", interpHandler) }

func interpHandler(c map[string]any) map[string]any {
	b, _ := hex.DecodeString(str(c, "text"))
	x, diags := ast.Interpolate(string(b))
	parts := []any{}
	for _, p := range x.Parts {
		item := map[string]any{"text": hex.EncodeToString([]byte(p.Text))}
		if p.Value != nil {
			accs := []any{}
			for _, a := range p.Value.Accessors {
				switch a := a.(type) {
				case *ast.PropertyName:
					accs = append(accs, []any{"name", hex.EncodeToString([]byte(a.Name))})
				case *ast.PropertySubscript:
					switch ix := a.Index.(type) {
					case string:
						accs = append(accs, []any{"key", hex.EncodeToString([]byte(ix))})
					case int:
						accs = append(accs, []any{"idx", ix})
					}
				}
			}
			item["path"] = accs
			item["string"] = hex.EncodeToString([]byte(p.Value.String()))
		}
		parts = append(parts, item)
	}
	return map[string]any{"parts": parts, "ndiags": len(diags)}
}
