package main

// C08 — provider-input validation vs JSON Schema: one (schema, value) pair through the REAL gate.
// A stub provider whose input schema is the generated schema (decoded with schema.Schema's own
// UnmarshalJSON, exactly as a provider's JSON schema would be) is registered in a ProviderLoader; the program
//     values: {x: {fn::open::stub: <value>}}
// is loaded with eval.LoadYAMLBytes and evaluated with eval.EvalEnvironment.
// Projection: was Open invoked (how often), did evaluation return an error diagnostic, did loading fail.
// With "via":"fromjson" the value travels as  fn::fromJSON: '<json text>'  (arbitrary number literals survive).

import (
	"bytes"
	"context"
	"encoding/json"
	"fmt"
	"sort"
	"strings"

	"github.com/pulumi/esc"
	"github.com/pulumi/esc/eval"
	"github.com/pulumi/esc/schema"
)

func init() { register("C08", c08) }

type c08Provider struct {
	in    *schema.Schema
	opens *int
}

func (p c08Provider) Schema() (*schema.Schema, *schema.Schema) { return p.in, schema.Always() }

func (p c08Provider) Open(ctx context.Context, inputs map[string]esc.Value, ec esc.EnvExecContext) (esc.Value, error) {
	*p.opens++
	return esc.NewValue("opened"), nil
}

type c08Loader struct{ p c08Provider }

func (l c08Loader) LoadProvider(ctx context.Context, name string) (esc.Provider, error) {
	if name == "stub" {
		return l.p, nil
	}
	return nil, fmt.Errorf("unknown provider %q", name)
}

// c08Envs serves the import layers of a "merged" case (name -> YAML text); empty otherwise.
type c08Envs map[string]string

func (e c08Envs) LoadEnvironment(ctx context.Context, name string) ([]byte, eval.Decrypter, error) {
	if t, ok := e[name]; ok {
		return []byte(t), nil, nil
	}
	return nil, nil, fmt.Errorf("no environments")
}

// c08YAML renders a JSON tree (json.Number numbers) as YAML flow syntax on one line.
func c08YAML(b *strings.Builder, v any) {
	switch x := v.(type) {
	case nil:
		b.WriteString("null")
	case bool:
		if x {
			b.WriteString("true")
		} else {
			b.WriteString("false")
		}
	case json.Number:
		b.WriteString(string(x))
	case string:
		b.WriteString(c08Quote(x))
	case []any:
		b.WriteString("[")
		for i, e := range x {
			if i > 0 {
				b.WriteString(", ")
			}
			c08YAML(b, e)
		}
		b.WriteString("]")
	case map[string]any:
		keys := make([]string, 0, len(x))
		for k := range x {
			keys = append(keys, k)
		}
		sort.Strings(keys)
		b.WriteString("{")
		for i, k := range keys {
			if i > 0 {
				b.WriteString(", ")
			}
			b.WriteString(c08Quote(k))
			b.WriteString(": ")
			c08YAML(b, x[k])
		}
		b.WriteString("}")
	default:
		panic(fmt.Sprintf("c08: unexpected %T", v))
	}
}

// c08Quote: JSON string syntax is valid YAML double-quoted syntax (no HTML escaping so that text stays as generated).
func c08Quote(s string) string {
	var buf bytes.Buffer
	enc := json.NewEncoder(&buf)
	enc.SetEscapeHTML(false)
	_ = enc.Encode(s)
	return strings.TrimRight(buf.String(), "\n")
}

func c08(c map[string]any) map[string]any {
	sj, err := json.Marshal(c["schema"])
	if err != nil {
		return map[string]any{"res": "badcase"}
	}
	var in schema.Schema
	if err := json.Unmarshal(sj, &in); err != nil {
		return map[string]any{"res": "schema-unmarshal"}
	}
	var b strings.Builder
	envs := c08Envs{}
	if layers, ok := c["layers"].([]any); ok && str(c, "via") == "merged" && len(layers) >= 1 {
		// the value reaches the gate as a REFERENCE to an object merged from the import layers (bottom first) and the
		// environment's own layer (last): imports [b0, b1, ...], cfg: <top layer>, x: fn::open::stub: ${cfg}
		b.WriteString("imports: [")
		for i := 0; i+1 < len(layers); i++ {
			var lb strings.Builder
			lb.WriteString("values:\n  cfg: ")
			c08YAML(&lb, layers[i])
			lb.WriteString("\n")
			name := fmt.Sprintf("b%d", i)
			envs[name] = lb.String()
			if i > 0 {
				b.WriteString(", ")
			}
			b.WriteString(name)
		}
		b.WriteString("]\nvalues:\n  cfg: ")
		c08YAML(&b, layers[len(layers)-1])
		b.WriteString("\n  x:\n    fn::open::stub: ${cfg}")
	} else {
		b.WriteString("values:\n  x:\n    fn::open::stub: ")
	}
	if str(c, "via") == "merged" {
		// value written above
	} else if str(c, "via") == "fromjson" {
		vj, _ := json.Marshal(c["value"])
		b.WriteString("{\"fn::fromJSON\": " + c08Quote(string(vj)) + "}")
	} else {
		c08YAML(&b, c["value"])
	}
	b.WriteString("\n")
	src := []byte(b.String())

	opens := 0
	loader := c08Loader{p: c08Provider{in: &in, opens: &opens}}
	decl, ldiags, err := eval.LoadYAMLBytes("c08", src)
	if err != nil || ldiags.HasErrors() || decl == nil {
		return map[string]any{"res": "load-error"}
	}
	execCtx, err := esc.NewExecContext(map[string]esc.Value{})
	if err != nil {
		return map[string]any{"res": "execctx"}
	}
	_, diags := eval.EvalEnvironment(context.Background(), "c08", decl, nil, loader, envs, execCtx)
	return map[string]any{"res": "ok", "opens": opens, "diag": diags.HasErrors()}
}
