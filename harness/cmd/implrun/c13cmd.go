package main

// C13, `cmd` cases: the whole `esc run` command (cobra command built by cli.New) against an in-memory world:
// a fake client that returns a scripted opened environment, a fake file system, and a fake command runner that
// records the arguments it is given, writes a scripted byte stream (its arguments, a newline, a script) to one of the
// (filtered) output streams and a second script to the other one, in scripted chunks, and then ends as scripted:
// exit status 0, a failure after all output is written (non-zero exit status), or a failure to start (nothing written).

import (
	"bytes"
	"context"
	"encoding/hex"
	"encoding/json"
	"errors"
	"fmt"
	"io"
	"io/fs"
	"os"
	"os/exec"
	"sync"
	"time"

	"github.com/pulumi/esc"
	"github.com/pulumi/esc/cmd/esc/cli"
	"github.com/pulumi/esc/cmd/esc/cli/client"
	escworkspace "github.com/pulumi/esc/cmd/esc/cli/workspace"
	"github.com/pulumi/pulumi/pkg/v3/backend/display"
	"github.com/pulumi/pulumi/sdk/v3/go/common/diag/colors"
	"github.com/pulumi/pulumi/sdk/v3/go/common/workspace"
)

const c13Backend = "https://api.pulumi.com"

// ---- login / workspace -------------------------------------------------------------------------
type c13Login struct{}

func (c13Login) Current(ctx context.Context, cloudURL string, insecure, setCurrent bool) (*workspace.Account, error) {
	return &workspace.Account{AccessToken: "token", Username: "verif"}, nil
}

func (c13Login) Login(ctx context.Context, cloudURL string, insecure bool, command, message string,
	welcome func(display.Options), current bool, opts display.Options) (*workspace.Account, error) {
	return &workspace.Account{AccessToken: "token", Username: "verif"}, nil
}

type c13Workspace struct{}

func (c13Workspace) DeleteAccount(string) error                      { return nil }
func (c13Workspace) DeleteAllAccounts() error                        { return nil }
func (c13Workspace) SetBackendConfigDefaultOrg(string, string) error { return nil }
func (c13Workspace) GetPulumiConfig() (workspace.PulumiConfig, error) {
	return workspace.PulumiConfig{}, nil
}
func (c13Workspace) GetPulumiPath(elem ...string) (string, error) { return "/pulumi", nil }
func (c13Workspace) GetStoredCredentials() (workspace.Credentials, error) {
	return workspace.Credentials{
		Current:  c13Backend,
		Accounts: map[string]workspace.Account{c13Backend: {AccessToken: "token", Username: "verif"}},
	}, nil
}
func (c13Workspace) StoreAccount(string, workspace.Account, bool) error { return nil }
func (c13Workspace) GetAccount(string) (workspace.Account, error) {
	return workspace.Account{AccessToken: "token", Username: "verif"}, nil
}

var _ escworkspace.PulumiWorkspace = c13Workspace{}

// ---- file system ---------------------------------------------------------------------------------
type c13File struct {
	name string
	fs   *c13FS
	buf  bytes.Buffer
}

func (f *c13File) Read(p []byte) (int, error)  { return f.buf.Read(p) }
func (f *c13File) Write(p []byte) (int, error) { return f.buf.Write(p) }
func (f *c13File) Close() error {
	f.fs.mu.Lock()
	defer f.fs.mu.Unlock()
	f.fs.files[f.name] = append([]byte(nil), f.buf.Bytes()...)
	return nil
}

type c13FS struct {
	mu      sync.Mutex
	n       int
	files   map[string][]byte
	removed []string
}

func (*c13FS) MkdirAll(string, fs.FileMode) error               { return nil }
func (*c13FS) LockedRead(string) ([]byte, error)                { return nil, fs.ErrNotExist }
func (*c13FS) LockedWrite(string, io.Reader, os.FileMode) error { return nil }
func (*c13FS) Open(name string) (fs.File, error)                { return nil, fs.ErrNotExist }
func (f *c13FS) CreateTemp(dir, pattern string) (string, io.ReadWriteCloser, error) {
	f.mu.Lock()
	defer f.mu.Unlock()
	name := fmt.Sprintf("/tmp/esc-%d", f.n)
	f.n++
	return name, &c13File{name: name, fs: f}, nil
}
func (f *c13FS) Remove(name string) error {
	f.mu.Lock()
	defer f.mu.Unlock()
	f.removed = append(f.removed, name)
	delete(f.files, name)
	return nil
}

// ---- process environment ---------------------------------------------------------------------------
type c13Environ struct{}

func (c13Environ) Get(string) string { return "" }
func (c13Environ) Vars() []string    { return nil }

// ---- the command runner ----------------------------------------------------------------------------
type c13Exec struct {
	script  []byte // bytes written after the argument line
	script2 []byte // bytes written to the other stream
	sizes   []int  // chunk sizes, cycled
	toErr   bool   // arguments and script go to stderr, script2 to stdout (instead of the other way round)
	outcome string // "ok", "fail" (error after the output is written), "nostart" (error, nothing written)
	args    []string
	ran     bool
}

// c13ExitError stands for *exec.ExitError (which cannot be built outside os/exec with a chosen status).
type c13ExitError struct{}

func (c13ExitError) Error() string { return "exit status 3" }

func (*c13Exec) LookPath(command string) (string, error) { return command, nil }

func (e *c13Exec) Run(cmd *exec.Cmd) error {
	e.ran = true
	e.args = append([]string(nil), cmd.Args[1:]...)
	if e.outcome == "nostart" {
		return errors.New("fork/exec: cannot start the command")
	}
	var stream []byte
	for i, a := range e.args {
		if i > 0 {
			stream = append(stream, ' ')
		}
		stream = append(stream, a...)
	}
	stream = append(stream, '\n')
	stream = append(stream, e.script...)
	w, w2 := cmd.Stdout, cmd.Stderr
	if e.toErr {
		w, w2 = w2, w
	}
	// the two streams are written alternately, chunk by chunk
	rest := [2][]byte{stream, append([]byte(nil), e.script2...)}
	ws := [2]io.Writer{w, w2}
	for i := 0; len(rest[0]) > 0 || len(rest[1]) > 0; i++ {
		k := i % 2
		if len(rest[k]) == 0 {
			continue
		}
		n := 1
		if len(e.sizes) > 0 {
			n = e.sizes[(i/2)%len(e.sizes)]
		}
		if n > len(rest[k]) {
			n = len(rest[k])
		}
		if n < 0 {
			n = 0
		}
		if _, err := ws[k].Write(rest[k][:n]); err != nil {
			return err
		}
		rest[k] = rest[k][n:]
		if i > 100000000 {
			return errors.New("chunk sizes make no progress")
		}
	}
	if e.outcome == "fail" {
		return c13ExitError{}
	}
	return nil
}

// ---- the client -------------------------------------------------------------------------------------
type c13Client struct {
	client.Client // every other method is absent: calling one panics, which the case reports
	env           *esc.Environment
}

func (c *c13Client) OpenEnvironment(ctx context.Context, orgName, projectName, envName, version string,
	duration time.Duration) (string, []client.EnvironmentDiagnostic, error) {
	return "open-1", nil, nil
}

func (c *c13Client) GetOpenEnvironmentWithProject(ctx context.Context, orgName, projectName, envName,
	openEnvID string) (*esc.Environment, error) {
	return c.env, nil
}

// ---- scripted values ---------------------------------------------------------------------------------
// node: {"t":"null"|"bool"|"num"|"str"|"arr"|"obj", "s":secret, "v": ...}; strings and keys travel as hex
func c13Value(x any) esc.Value {
	m, _ := x.(map[string]any)
	secret, _ := m["s"].(bool)
	var v any
	switch m["t"] {
	case "bool":
		v, _ = m["v"].(bool)
	case "num":
		s, _ := m["v"].(string)
		b, _ := hex.DecodeString(s)
		v = json.Number(string(b))
	case "str":
		s, _ := m["v"].(string)
		b, _ := hex.DecodeString(s)
		v = string(b)
	case "arr":
		l, _ := m["v"].([]any)
		vals := make([]esc.Value, len(l))
		for i, e := range l {
			vals[i] = c13Value(e)
		}
		v = vals
	case "obj":
		l, _ := m["v"].([]any)
		vals := map[string]esc.Value{}
		for _, e := range l {
			kv, _ := e.([]any)
			if len(kv) != 2 {
				continue
			}
			ks, _ := kv[0].(string)
			kb, _ := hex.DecodeString(ks)
			vals[string(kb)] = c13Value(kv[1])
		}
		v = vals
	}
	return esc.Value{Value: v, Secret: secret}
}

func c13Cmd(c map[string]any) map[string]any {
	root := c13Value(c["env"])
	props, _ := root.Value.(map[string]esc.Value)
	env := &esc.Environment{Properties: props}

	ex := &c13Exec{toErr: c["stderr"] == true, outcome: str(c, "outcome")}
	ex.script, _ = hex.DecodeString(str(c, "script"))
	ex.script2, _ = hex.DecodeString(str(c, "script2"))
	if l, ok := c["sizes"].([]any); ok {
		for _, x := range l {
			if n, ok := x.(json.Number); ok {
				k, _ := n.Int64()
				ex.sizes = append(ex.sizes, int(k))
			}
		}
	}
	fsys := &c13FS{files: map[string][]byte{}}
	var stdout, stderr bytes.Buffer
	opts := cli.VerifC13Options(cli.Options{
		Stdin:           bytes.NewReader(nil),
		Stdout:          &stdout,
		Stderr:          &stderr,
		Colors:          colors.Never,
		Login:           c13Login{},
		PulumiWorkspace: c13Workspace{},
	}, fsys, c13Environ{}, ex, func(_, _, _ string, _ bool) client.Client { return &c13Client{env: env} })

	args := []string{"run", "verif/proj/env", "--", "thecommand"}
	for _, a := range c13HexList(c, "args") {
		args = append(args, string(a))
	}
	cmd := cli.New(opts)
	cmd.SetArgs(args)
	cmd.SetIn(bytes.NewReader(nil))
	cmd.SetOut(io.Discard)
	cmd.SetErr(io.Discard)
	err := cmd.Execute()

	res := map[string]any{"ran": ex.ran}
	if err != nil {
		res["err"] = true
	}
	var outArgs []string
	for _, a := range ex.args {
		outArgs = append(outArgs, hex.EncodeToString([]byte(a)))
	}
	res["args"] = outArgs
	if ex.toErr {
		res["out"] = hex.EncodeToString(stderr.Bytes())
		res["other"] = hex.EncodeToString(stdout.Bytes())
	} else {
		res["out"] = hex.EncodeToString(stdout.Bytes())
		res["other"] = hex.EncodeToString(stderr.Bytes())
	}
	res["tempfiles_left"] = len(fsys.files)
	return res
}
