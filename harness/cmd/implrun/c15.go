package main

// C15 — path edits (YAMLSyntax.Get/Set/Delete, `esc env set|rm|get`).
//
// One case = a definition text and a sequence of operations.  Mode "api": every operation is a direct call of
// encoding.YAMLSyntax{doc}.Set / Delete on the parsed document (as TestYAMLEdit does), the document is written
// back with yaml.Marshal and parsed again.  Mode "cli": every operation is a real `esc env set` / `esc env rm`
// command (cli.VerifC15Run, verif hook) against a fake backend that stores the definition text verbatim.
// Observed after every operation: ok / error class / panic, the stored definition re-parsed and projected
// (kind, tag, style, value, comments, children), and what Get(path) finds in it.

import (
	"context"
	"encoding/hex"
	"fmt"
	"strings"

	"github.com/pulumi/esc"
	"github.com/pulumi/esc/cmd/esc/cli"
	"github.com/pulumi/esc/cmd/esc/cli/client"
	"github.com/pulumi/esc/eval"
	"github.com/pulumi/esc/syntax/encoding"
	"github.com/pulumi/pulumi/sdk/v3/go/common/resource"
	"gopkg.in/yaml.v3"
)

func init() { register("C15", c15) }

func c15Proj(n *yaml.Node) any {
	if n == nil {
		return nil
	}
	kids := make([]any, 0, len(n.Content))
	for _, c := range n.Content {
		kids = append(kids, c15Proj(c))
	}
	return []any{int(n.Kind), n.Tag, int(n.Style), n.Value, n.HeadComment, n.LineComment, n.FootComment, kids}
}

// c15ProjRoot projects the root of a definition; the comments yaml.v3 attaches to the DOCUMENT node (a comment block at
// the top of the text that a blank line separates from the first key, a comment block at the end) are shown as head /
// foot comment of the root, where the text has them, so that the check sees them too.
func c15ProjRoot(doc, root *yaml.Node) any {
	p := c15Proj(root).([]any)
	join := func(a, b string) string {
		if a == "" {
			return b
		}
		if b == "" {
			return a
		}
		return a + "\n" + b
	}
	if doc != nil && doc.Kind == yaml.DocumentNode {
		p[4] = join(doc.HeadComment, root.HeadComment)
		p[6] = join(root.FootComment, doc.FootComment)
	}
	return p
}

// root of a parsed definition: Content[0] of the document, or a zero node for an empty definition
func c15Root(text []byte) (*yaml.Node, *yaml.Node, error) {
	var d yaml.Node
	if err := yaml.Unmarshal(text, &d); err != nil {
		return nil, nil, err
	}
	if d.Kind != yaml.DocumentNode {
		d = yaml.Node{Kind: yaml.DocumentNode, Content: []*yaml.Node{{}}}
	}
	return &d, d.Content[0], nil
}

func c15Path(p resource.PropertyPath) any {
	out := make([]any, 0, len(p))
	for _, a := range p {
		switch a := a.(type) {
		case string:
			out = append(out, []any{"k", a})
		case int:
			out = append(out, []any{"i", a})
		default:
			out = append(out, []any{"?", fmt.Sprint(a)})
		}
	}
	return out
}

func c15Err(err error) string {
	m := err.Error()
	switch {
	case strings.Contains(m, "key for an array must be an int"):
		return "keyint"
	case strings.Contains(m, "key for a map must be a string"):
		return "keystr"
	case strings.Contains(m, "array index out of range"):
		return "range"
	case strings.Contains(m, "expected an array or an object"):
		return "expected"
	case strings.Contains(m, "path must contain at least one element"):
		return "emptypath"
	case strings.HasPrefix(m, "invalid path"):
		return "patherr"
	case strings.HasPrefix(m, "invalid value"):
		return "valerr"
	case strings.Contains(m, "looks like a secret"):
		return "lookssecret"
	}
	return "other"
}

// the value argument as env_set.go reads it
func c15Value(text string) (*yaml.Node, error) {
	var v yaml.Node
	if err := yaml.Unmarshal([]byte(text), &v); err != nil {
		return nil, err
	}
	if len(v.Content) == 0 {
		if err := yaml.Unmarshal([]byte(`""`), &v); err != nil {
			return nil, err
		}
	}
	return v.Content[0], nil
}

// c15Opened encrypts the stored definition as a backend does, opens it with the matching decrypter and compares the
// value at values.<path> with the text that was given to `env set --secret`.
func c15Opened(def []byte, path resource.PropertyPath, want string) (res string) {
	defer func() {
		if r := recover(); r != nil {
			res = "panic"
		}
	}()
	toy := cyToyCipher{key: 0x5a, pad: 2}
	enc, err := eval.EncryptSecrets(context.Background(), "def", def, toy)
	if err != nil {
		return "skip:encrypt"
	}
	decl, diags, err := eval.LoadYAMLBytes("def", enc)
	if err != nil || diags.HasErrors() || decl == nil {
		return "skip:load"
	}
	ec, _ := esc.NewExecContext(map[string]esc.Value{})
	out, ediags := eval.EvalEnvironment(context.Background(), "def", decl, toy, c15NoProviders{}, c15EmptyEnvs{}, ec)
	if out == nil || ediags.HasErrors() {
		return "skip:eval"
	}
	v := esc.NewValue(out.Properties)
	for _, k := range path {
		switch key := k.(type) {
		case string:
			m, ok := v.Value.(map[string]esc.Value)
			if !ok {
				return "skip:path"
			}
			v, ok = m[key]
			if !ok {
				return "skip:path"
			}
		case int:
			l, ok := v.Value.([]esc.Value)
			if !ok || key < 0 || key >= len(l) {
				return "skip:path"
			}
			v = l[key]
		}
	}
	sv, ok := v.Value.(string)
	if !ok {
		return "differs:notstring"
	}
	if !v.Secret {
		return "differs:notsecret"
	}
	if sv != want {
		return "differs:" + hex.EncodeToString([]byte(sv))
	}
	return "same"
}

// collaborators of c15Opened: every import is an empty environment, there are no providers
type c15EmptyEnvs struct{}

func (c15EmptyEnvs) LoadEnvironment(ctx context.Context, name string) ([]byte, eval.Decrypter, error) {
	return []byte("values: {}\n"), cyToyCipher{key: 0x5a, pad: 2}, nil
}

func c15Guard(f func() error) (status string) {
	defer func() {
		if r := recover(); r != nil {
			status = "panic"
		}
	}()
	if err := f(); err != nil {
		return "err:" + c15Err(err)
	}
	return "ok"
}

// ---- fake backend for the CLI mode -------------------------------------------------------------
type c15Client struct {
	client.Client // every method that is not overridden is nil: calling it panics, which the case reports
	def           []byte
	updates       int
}

func (c *c15Client) Insecure() bool { return true }
func (c *c15Client) URL() string    { return "http://fake.pulumi.api" }

func (c *c15Client) GetEnvironment(ctx context.Context, org, proj, env, version string, showSecrets bool) ([]byte, string, int, error) {
	return c.def, "tag", 1 + c.updates, nil
}

func (c *c15Client) UpdateEnvironmentWithProject(ctx context.Context, org, proj, env string, yaml []byte, tag string) ([]client.EnvironmentDiagnostic, error) {
	c.def = append([]byte(nil), yaml...)
	c.updates++
	return nil, nil
}

type c15NoProviders struct{}

func (c15NoProviders) LoadProvider(ctx context.Context, name string) (esc.Provider, error) {
	return nil, fmt.Errorf("unknown provider %q", name)
}

type c15NoEnvs struct{}

func (c15NoEnvs) LoadEnvironment(ctx context.Context, name string) ([]byte, eval.Decrypter, error) {
	return nil, nil, fmt.Errorf("unknown environment %q", name)
}

type c15Crypt struct{}

func (c15Crypt) Encrypt(_ context.Context, b []byte) ([]byte, error) { return b, nil }
func (c15Crypt) Decrypt(_ context.Context, b []byte) ([]byte, error) { return b, nil }

func (c *c15Client) CheckYAMLEnvironment(ctx context.Context, org string, yaml []byte, opts ...client.CheckYAMLOption) (*esc.Environment, []client.EnvironmentDiagnostic, error) {
	env, diags, err := eval.LoadYAMLBytes("env", yaml)
	if err != nil {
		return nil, nil, err
	}
	if diags.HasErrors() {
		return nil, []client.EnvironmentDiagnostic{{Summary: "load"}}, nil
	}
	execContext, err := esc.NewExecContext(map[string]esc.Value{})
	if err != nil {
		return nil, nil, err
	}
	checked, _ := eval.CheckEnvironment(ctx, "env", env, c15Crypt{}, c15NoProviders{}, c15NoEnvs{}, execContext, false)
	return checked, nil, nil
}

const c15Env = "org/proj/env"

// ---- one case ------------------------------------------------------------------------------------
func c15(c map[string]any) map[string]any {
	mode := str(c, "mode")
	reparse, _ := c["reparse"].(bool)
	cur := []byte(str(c, "doc"))
	res := map[string]any{}

	doc, root, err := c15Root(cur)
	if err != nil {
		// the definition text itself is refused by yaml.v3: reported (and counted by the check), with the answer of a
		// second, independent decode of the same text (into a plain Go value)
		var generic any
		gerr := yaml.Unmarshal(cur, &generic)
		return map[string]any{"docerr": true, "docerr_text": err.Error(), "generic_ok": gerr == nil}
	}
	res["doc0"] = c15ProjRoot(doc, root)
	// is the initial text stable under Marshal/Unmarshal (the yaml.v3 round trip the CLI relies on)?
	if root.Kind != 0 {
		if b, err := yaml.Marshal(doc); err == nil {
			if d2, r2, err := c15Root(b); err == nil {
				res["doc0rt"] = c15ProjRoot(d2, r2)
			}
		}
	} else {
		res["doc0rt"] = c15ProjRoot(doc, root)
	}

	fake := &c15Client{def: cur}
	ops, _ := c["ops"].([]any)
	steps := make([]any, 0, len(ops))
	for _, o := range ops {
		op, _ := o.(map[string]any)
		step := map[string]any{}
		steps = append(steps, step)
		kind := str(op, "op")
		pathText := str(op, "path")
		valText := str(op, "value")
		secret, _ := op["secret"].(bool)

		path, perr := resource.ParsePropertyPath(pathText)
		if perr != nil {
			step["path"] = "err"
		} else {
			step["path"] = c15Path(path)
		}
		var val *yaml.Node
		if kind == "set" {
			v, verr := c15Value(valText)
			if verr != nil {
				step["val0"] = "err"
			} else {
				val = v
				step["val0"] = c15Proj(v)
			}
		}

		var status string
		switch mode {
		case "api":
			if perr != nil {
				status = "err:patherr"
				break
			}
			if kind == "set" && val == nil {
				status = "err:valerr"
				break
			}
			if reparse || doc == nil {
				doc, _, err = c15Root(cur)
				if err != nil {
					status = "docerr"
					break
				}
			}
			status = c15Guard(func() error {
				if kind == "set" {
					_, err := encoding.YAMLSyntax{Node: doc}.Set(nil, path, *val)
					return err
				}
				return encoding.YAMLSyntax{Node: doc}.Delete(nil, path)
			})
			if status == "ok" {
				st2 := c15Guard(func() error {
					// the whole document, so that the comments of the document node are written back as well
					var b []byte
					var err error
					if doc.Content[0].Kind == 0 {
						b, err = yaml.Marshal(doc.Content[0])
					} else {
						b, err = yaml.Marshal(doc)
					}
					if err != nil {
						return err
					}
					cur = b
					return nil
				})
				if st2 != "ok" {
					status = "marshalfail"
					doc = nil
				}
			} else {
				doc = nil // a failed Set/Delete may have changed the tree half-way: start again from the text
			}
		case "cli":
			args := []string{"env", kind}
			if kind == "set" {
				if secret {
					args = append(args, "--secret")
				} else {
					args = append(args, "--plaintext")
				}
				args = append(args, "--", c15Env, pathText, valText)
			} else {
				args = append(args, "--", c15Env, pathText)
			}
			before := fake.updates
			status = c15Guard(func() error {
				_, _, err := cli.VerifC15Run(fake, args)
				return err
			})
			step["wrote"] = fake.updates != before
			cur = fake.def
		default:
			status = "badmode"
		}
		step["status"] = status

		// `env set --secret <text>`: what the stored definition OPENS to after the write-back every backend performs
		// (eval.EncryptSecrets with the environment's key) must be the given text, flagged secret
		// for every value the command accepts with --secret: a string scalar is stored as it is, any other scalar is
		// replaced by the command-line text itself; a collection is wrapped as it is (fn::secret of a non-string, which
		// the loader refuses: reported as "nonscalar:<outcome>" and never counted as a pass)
		if mode == "cli" && kind == "set" && secret && status == "ok" && perr == nil && val != nil {
			switch {
			case val.Kind == yaml.ScalarNode && val.Tag == "!!str":
				step["opened"] = c15Opened(cur, path, val.Value)
			case val.Kind == yaml.ScalarNode:
				step["opened"] = c15Opened(cur, path, valText)
			default:
				step["opened"] = "nonscalar:" + c15Opened(cur, path, "")
			}
		}

		// what is stored now
		d2, r2, err := c15Root(cur)
		if err != nil {
			step["status"] = "unparsable"
			step["text"] = string(cur)
			break
		}
		step["after"] = c15ProjRoot(d2, r2)
		if perr == nil {
			gp := path
			if mode == "cli" {
				if len(path) > 0 && path[0] == "imports" {
					gp = path
				} else {
					gp = append(resource.PropertyPath{"values"}, path...)
				}
			}
			gst := c15Guard(func() error {
				n, ok := encoding.YAMLSyntax{Node: d2}.Get(gp)
				if ok {
					step["get"] = c15Proj(n)
				} else {
					step["get"] = "missing"
				}
				return nil
			})
			if gst != "ok" {
				step["get"] = "panic"
			}
		}
		// the real `env get --definition` on what is stored (CLI mode, successful commands only)
		if mode == "cli" && status == "ok" && perr == nil && len(path) > 0 {
			env, diags, cerr := fake.CheckYAMLEnvironment(context.Background(), "org", cur)
			if !(cerr == nil && env != nil && len(diags) == 0) {
				step["cliget_skipped"] = "not-loadable" // `env get` needs the checked environment; counted by the check
			} else {
				var out string
				gst := c15Guard(func() error {
					o, _, err := cli.VerifC15Run(fake, []string{"env", "get", "--definition", "--", c15Env, pathText})
					out = o
					return err
				})
				step["cliget_status"] = gst
				if gst != "ok" {
					step["cliget"] = "failed"
				}
				if gst == "ok" {
					if strings.TrimSpace(out) == "" {
						step["cliget"] = "missing"
					} else if _, r3, err := c15Root([]byte(out)); err == nil {
						step["cliget"] = c15Proj(r3)
					} else {
						step["cliget"] = "unparsable"
					}
				}
			}
		}
	}
	res["steps"] = steps
	return res
}
