package main

import (
	"bytes"
	"context"
	"encoding/base64"
	"encoding/hex"
	"encoding/json"
	"errors"
	"io"

	"github.com/pulumi/esc"
	"github.com/pulumi/esc/eval"
)

// c11Recorder is a Decrypter that records what it is handed: a copy taken at call time and the slice itself
// (a decrypter may keep its argument, e.g. to decrypt in the background or in a batch).
type c11Recorder struct {
	copies [][]byte
	kept   [][]byte
}

func (r *c11Recorder) Decrypt(_ context.Context, c []byte) ([]byte, error) {
	r.copies = append(r.copies, append([]byte(nil), c...))
	r.kept = append(r.kept, c)
	return []byte(`"pt"`), nil
}

// c11Other is a valid envelope of a payload unlike anything the generator produces; decoding it between a decode and
// the use of its result shows whether a returned payload is still owned by the decoder.
func c11Other(n int) string {
	return eval.VerifEncodeCiphertext(bytes.Repeat([]byte{0xA5}, n))
}

// c11Paths feeds repr, as the ciphertext of a secret, to the two public entry points that unwrap envelopes
// (DecryptSecrets over a document; the evaluator's fn::secret) with a recording decrypter.  Each must hand the decrypter
// exactly the payload decodeCiphertext returns - and nothing at all when decodeCiphertext rejects repr.
func c11Paths(repr string, ok bool, want []byte) (string, string) {
	for _, b := range []byte(repr) {
		if b < 0x20 || b >= 0x7f {
			return "skip", "skip"
		}
	}
	q, _ := json.Marshal(repr)
	// the same text three times (a decoder that remembers texts must remember their rejection too), then a valid one
	doc := []byte("values:\n  s:\n    fn::secret:\n      ciphertext: " + string(q) + "\n  s2:\n    fn::secret:\n      ciphertext: " + string(q) + "\n  l:\n    - fn::secret:\n        ciphertext: " + string(q) + "\n  t:\n    fn::secret:\n      ciphertext: " + c11OtherQ + "\n")
	judge := func(r *c11Recorder) string {
		// the second secret (always valid) must arrive; the first only if accepted
		var mine [][]byte
		var kept [][]byte
		for i, c := range r.copies {
			if !bytes.Equal(c, c11OtherPayload) {
				mine = append(mine, c)
				kept = append(kept, r.kept[i])
			}
		}
		switch {
		case !ok && len(mine) != 0:
			return "rejected-envelope-reached-decrypter:" + hex.EncodeToString(mine[0])
		case ok && len(mine) == 0 && !bytes.Equal(want, c11OtherPayload):
			return "accepted-envelope-never-decrypted"
		case ok && len(mine) != 0 && !bytes.Equal(mine[0], want):
			return "decrypter-got-other-bytes:" + hex.EncodeToString(mine[0])
		case ok && len(kept) != 0 && !bytes.Equal(kept[0], want):
			return "payload-changed-after-the-call:" + hex.EncodeToString(kept[0])
		}
		return "same"
	}
	r1 := &c11Recorder{}
	_, _ = eval.DecryptSecrets(context.Background(), "doc", doc, r1)
	p1 := judge(r1)
	if p1 == "same" {
		// the same through a document in which the key is spelled with a YAML escape only (no literal "fn::secret" text)
		doc2 := []byte("values:\n  s:\n    \"fn::\\u0073ecret\":\n      ciphertext: " + string(q) + "\n  t:\n    \"fn\\x3a:secret\":\n      ciphertext: " + c11OtherQ + "\n")
		r1b := &c11Recorder{}
		_, _ = eval.DecryptSecrets(context.Background(), "doc", doc2, r1b)
		if ok && len(r1b.copies) == 0 {
			p1 = "escaped-key-document-never-reached-the-decrypter"
		} else if pb := judge(r1b); pb != "same" {
			p1 = "escaped-key:" + pb
		}
	}
	p2 := "skip"
	env, diags, err := eval.LoadYAMLBytes("doc", doc)
	if err == nil && !diags.HasErrors() {
		r2 := &c11Recorder{}
		ec, _ := esc.NewExecContext(map[string]esc.Value{})
		_, _ = eval.EvalEnvironment(context.Background(), "doc", env, r2, nil, nil, ec)
		p2 = judge(r2)
	}
	return p1, p2
}

var c11OtherPayload = bytes.Repeat([]byte{0xA5}, 7)
var c11OtherQ = func() string { q, _ := json.Marshal(c11Other(7)); return string(q) }()

func init() { register("C11", c11) }

func c11(c map[string]any) map[string]any {
	switch str(c, "op") {
	case "enc":
		ct, _ := hex.DecodeString(str(c, "ct"))
		return map[string]any{"repr": hex.EncodeToString([]byte(eval.VerifEncodeCiphertext(ct)))}
	case "round":
		ct, _ := hex.DecodeString(str(c, "ct"))
		repr := eval.VerifEncodeCiphertext(ct)
		d := c11(map[string]any{"op": "dec", "repr": hex.EncodeToString([]byte(repr))})
		return map[string]any{"repr": hex.EncodeToString([]byte(repr)), "dec": d}
	case "dec":
		repr, _ := hex.DecodeString(str(c, "repr"))
		out, err := eval.VerifDecodeCiphertext(string(repr))
		var first []byte
		if err == nil {
			first = append([]byte(nil), out...)
			// the caller owns the result: later unwraps (same and larger size) must not change it
			_, _ = eval.VerifDecodeCiphertext(c11Other(len(out)))
			_, _ = eval.VerifDecodeCiphertext(c11Other(len(out) + 300))
		}
		p1, p2 := c11Paths(string(repr), err == nil, first)
		if err == nil {
			return map[string]any{"res": "ok", "ct": hex.EncodeToString(out), "first": hex.EncodeToString(first), "doc": p1, "eval": p2}
		}
		c["_doc"], c["_eval"] = p1, p2
		var b64 base64.CorruptInputError
		kind := "other:" + err.Error()
		switch {
		case errors.As(err, &b64):
			kind = "base64"
		case err == io.EOF:
			kind = "short"
		case err.Error() == "invalid header":
			kind = "header"
		case err.Error() == "invalid checksum":
			kind = "checksum"
		case err.Error() == "unsupported version":
			kind = "version"
		}
		return map[string]any{"res": kind, "doc": c["_doc"], "eval": c["_eval"]}
	}
	return map[string]any{"res": "badop"}
}
