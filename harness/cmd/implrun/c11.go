package main

import (
	"encoding/base64"
	"encoding/hex"
	"errors"
	"io"

	"github.com/pulumi/esc/eval"
)

func init() { register("C11", c11) }

func c11(c map[string]any) map[string]any {
	switch str(c, "op") {
	case "enc":
		ct, _ := hex.DecodeString(str(c, "ct"))
		return map[string]any{"repr": hex.EncodeToString([]byte(eval.VerifEncodeCiphertext(ct)))}
	case "round":
		ct, _ := hex.DecodeString(str(c, "ct"))
		repr := eval.VerifEncodeCiphertext(ct)
		d := c11(map[string]any{"op": "dec", "repr": hex.EncodeToString([]byte(repr))})
		return map[string]any{"repr": hex.EncodeToString([]byte(repr)), "dec": d}
	case "dec":
		repr, _ := hex.DecodeString(str(c, "repr"))
		out, err := eval.VerifDecodeCiphertext(string(repr))
		if err == nil {
			return map[string]any{"res": "ok", "ct": hex.EncodeToString(out)}
		}
		var b64 base64.CorruptInputError
		kind := "other:" + err.Error()
		switch {
		case errors.As(err, &b64):
			kind = "base64"
		case err == io.EOF:
			kind = "short"
		case err.Error() == "invalid header":
			kind = "header"
		case err.Error() == "invalid checksum":
			kind = "checksum"
		case err.Error() == "unsupported version":
			kind = "version"
		}
		return map[string]any{"res": kind}
	}
	return map[string]any{"res": "badop"}
}
