package main

import (
	"bytes"
	"context"
	"encoding/base64"
	"encoding/hex"
	"encoding/json"
	"errors"
	"io"
	"strings"
	"unicode/utf8"

	"github.com/pulumi/esc"
	"github.com/pulumi/esc/eval"
	"gopkg.in/yaml.v3"
)

// c11Recorder is a Decrypter that records what it is handed: a copy taken at call time and the slice itself
// (a decrypter may keep its argument, e.g. to decrypt in the background or in a batch).
type c11Recorder struct {
	copies [][]byte
	kept   [][]byte
}

func (r *c11Recorder) Decrypt(_ context.Context, c []byte) ([]byte, error) {
	r.copies = append(r.copies, append([]byte(nil), c...))
	r.kept = append(r.kept, c)
	return []byte(`"pt"`), nil
}

// c11Other is a valid envelope of a payload unlike anything the generator produces; decoding it between a decode and
// the use of its result shows whether a returned payload is still owned by the decoder.
func c11Other(n int) string {
	return eval.VerifEncodeCiphertext(bytes.Repeat([]byte{0xA5}, n))
}

// c11ErrKind classifies an error of decodeCiphertext (possibly wrapped).
func c11ErrKind(err error) string {
	var b64 base64.CorruptInputError
	switch {
	case errors.As(err, &b64):
		return "base64"
	case errors.Is(err, io.EOF):
		return "short"
	case strings.HasSuffix(err.Error(), "invalid header"):
		return "header"
	case strings.HasSuffix(err.Error(), "invalid checksum"):
		return "checksum"
	case strings.HasSuffix(err.Error(), "unsupported version"):
		return "version"
	}
	return "other"
}

// c11Quote renders a text as a YAML double-quoted scalar: control bytes through \xNN escapes (a YAML document cannot
// contain them literally), everything else as it is.  A text that is not valid UTF-8 cannot be the value of a YAML
// scalar at all: ok = false (the case is counted as skipped).
func c11Quote(repr string) (string, bool) {
	if !utf8.ValidString(repr) {
		return "", false
	}
	var sb strings.Builder
	sb.WriteByte('"')
	for _, r := range repr {
		switch {
		case r == '"':
			sb.WriteString(`\"`)
		case r == '\\':
			sb.WriteString(`\\`)
		case r < 0x20 || r == 0x7f:
			sb.WriteString(`\x`)
			sb.WriteString(hex.EncodeToString([]byte{byte(r)}))
		case r == 0x85 || r == 0xa0 || r == 0x2028 || r == 0x2029 || r == 0xfeff || (r >= 0x80 && r < 0xa0):
			// line breaks / BOM / C1 controls of YAML: escaped as code points
			sb.WriteString(`\u`)
			sb.WriteString(hex.EncodeToString([]byte{byte(r >> 8), byte(r)}))
		default:
			sb.WriteRune(r)
		}
	}
	sb.WriteByte('"')
	return sb.String(), true
}

// c11Seen projects what a recording decrypter received: the number of payloads other than the marker secret's, and
// whether every one of them equals want - at call time and when the slice is read again after the run.
func c11Seen(r *c11Recorder, want []byte) (int, bool) {
	n, same := 0, true
	for i, c := range r.copies {
		if bytes.Equal(c, c11OtherPayload) && !bytes.Equal(want, c11OtherPayload) {
			continue
		}
		n++
		if !bytes.Equal(c, want) || !bytes.Equal(r.kept[i], want) {
			same = false
		}
	}
	return n, same
}

func c11Flag(b bool) string {
	if b {
		return "same"
	}
	return "differs"
}

// c11Doc runs eval.DecryptSecrets over doc and projects: the class of the returned error ("none", "ic:<kind>" for an
// error that wraps "invalid ciphertext: <decoder error>", "other"), how many payloads reached the decrypter and whether
// they are the expected one.
func c11Doc(doc []byte, want []byte) map[string]any {
	r := &c11Recorder{}
	_, err := eval.DecryptSecrets(context.Background(), "doc", doc, r)
	n, same := c11Seen(r, want)
	class := "none"
	if err != nil {
		class = "other"
		if strings.Contains(err.Error(), "invalid ciphertext: ") {
			class = "ic:" + c11ErrKind(err)
		}
	}
	return map[string]any{"err": class, "n": n, "same": c11Flag(same), "calls": len(r.copies)}
}

// c11Paths feeds repr, as the ciphertext of a secret, to the public entry points that unwrap envelopes
// (DecryptSecrets over a document - also one whose key is spelled with YAML escapes only; the evaluator's fn::secret)
// with a recording decrypter and reports what each did; the judgement (a rejected text MUST produce the "invalid
// ciphertext" error / exactly one diagnostic per occurrence and reach the decrypter never; an accepted one must reach
// it once per occurrence with exactly the decoder's payload) is made by Corr/C11.v.
func c11Paths(repr string, want []byte) map[string]any {
	q, ok := c11Quote(repr)
	if !ok {
		return map[string]any{"skip": "not-utf8"}
	}
	// the same text three times (a decoder that remembers texts must remember their rejection too), then a valid one
	doc := []byte("values:\n  s:\n    fn::secret:\n      ciphertext: " + q + "\n  s2:\n    fn::secret:\n      ciphertext: " + q + "\n  l:\n    - fn::secret:\n        ciphertext: " + q + "\n  t:\n    fn::secret:\n      ciphertext: " + c11OtherQ + "\n")
	out := map[string]any{"occ": 3}
	out["doc"] = c11Doc(doc, want)
	// a document in which the key is spelled with a YAML escape only (no literal "fn::secret" text), one occurrence
	doc2 := []byte("values:\n  s:\n    \"fn::\\u0073ecret\":\n      ciphertext: " + q + "\n  t:\n    \"fn\\x3a:secret\":\n      ciphertext: " + c11OtherQ + "\n")
	out["doc2"] = c11Doc(doc2, want)
	env, diags, err := eval.LoadYAMLBytes("doc", doc)
	if err != nil || diags.HasErrors() {
		out["eval"] = map[string]any{"skip": "load"}
		return out
	}
	r2 := &c11Recorder{}
	ec, _ := esc.NewExecContext(map[string]esc.Value{})
	_, ediags := eval.EvalEnvironment(context.Background(), "doc", env, r2, nil, nil, ec)
	nd := 0
	for _, d := range ediags {
		if d.Severity == 1 { // hcl.DiagError
			nd++
		}
	}
	n, same := c11Seen(r2, want)
	ev := map[string]any{"diags": nd, "n": n, "same": c11Flag(same)}
	out["eval"] = ev
	// the same document while only CHECKING, without and with showSecrets: an envelope is judged by the same decoder on
	// every route, so the number of error diagnostics must be the one of the evaluation (the recording decrypter never
	// fails; without showSecrets it is not even called).  Reported next to the evaluation's count.
	for i, show := range []bool{false, true} {
		env2, d2, err2 := eval.LoadYAMLBytes("doc", doc)
		if err2 != nil || d2.HasErrors() {
			continue
		}
		r3 := &c11Recorder{}
		ec3, _ := esc.NewExecContext(map[string]esc.Value{})
		_, cdiags := eval.CheckEnvironment(context.Background(), "doc", env2, r3, nil, nil, ec3, show)
		cn := 0
		for _, d := range cdiags {
			if d.Severity == 1 {
				cn++
			}
		}
		ev[[]string{"check_diags", "check_show_diags"}[i]] = cn
	}
	return out
}

var c11OtherPayload = bytes.Repeat([]byte{0xA5}, 7)
var c11OtherQ = func() string { q, _ := json.Marshal(c11Other(7)); return string(q) }()

// c11Chosen is an Encrypter whose output is chosen by the case.
type c11Chosen struct{ out []byte }

func (e c11Chosen) Encrypt(_ context.Context, _ []byte) ([]byte, error) { return e.out, nil }

func init() { register("C11", c11) }

func c11(c map[string]any) map[string]any {
	switch str(c, "op") {
	case "enc":
		ct, _ := hex.DecodeString(str(c, "ct"))
		return map[string]any{"repr": hex.EncodeToString([]byte(eval.VerifEncodeCiphertext(ct)))}
	case "round":
		ct, _ := hex.DecodeString(str(c, "ct"))
		repr := eval.VerifEncodeCiphertext(ct)
		d := c11(map[string]any{"op": "dec", "repr": hex.EncodeToString([]byte(repr))})
		return map[string]any{"repr": hex.EncodeToString([]byte(repr)), "dec": d}
	case "wrap":
		// the wrap side through the PUBLIC API: EncryptSecrets with a chosen-output encrypter over a document with one
		// plaintext secret; the envelope text is read back from the rewritten document with an independent YAML reader
		ct, _ := hex.DecodeString(str(c, "ct"))
		src := []byte("values:\n  s:\n    fn::secret: plain-text\n")
		enc, err := eval.EncryptSecrets(context.Background(), "doc", src, c11Chosen{ct})
		if err != nil {
			return map[string]any{"res": "encrypt-error"}
		}
		var y struct {
			Values struct {
				S map[string]map[string]string `yaml:"s"`
			} `yaml:"values"`
		}
		if yaml.Unmarshal(enc, &y) != nil {
			return map[string]any{"res": "encrypt-output-unreadable"}
		}
		repr, found := y.Values.S["fn::secret"]["ciphertext"]
		if !found {
			return map[string]any{"res": "encrypt-output-no-ciphertext"}
		}
		d := c11(map[string]any{"op": "dec", "repr": hex.EncodeToString([]byte(repr))})
		// ... and the rewritten document itself through DecryptSecrets: the decrypter must get ct, once
		r := &c11Recorder{}
		_, derr := eval.DecryptSecrets(context.Background(), "doc", enc, r)
		back := "same"
		if derr != nil || len(r.copies) != 1 || !bytes.Equal(r.copies[0], ct) {
			back = "differs"
		}
		return map[string]any{"repr": hex.EncodeToString([]byte(repr)), "dec": d, "back": back}
	case "dec":
		repr, _ := hex.DecodeString(str(c, "repr"))
		out, err := eval.VerifDecodeCiphertext(string(repr))
		var first []byte
		if err == nil {
			first = append([]byte(nil), out...)
			// the caller owns the result: later unwraps (same and larger size) must not change it
			_, _ = eval.VerifDecodeCiphertext(c11Other(len(out)))
			_, _ = eval.VerifDecodeCiphertext(c11Other(len(out) + 300))
		}
		paths := c11Paths(string(repr), first)
		if err == nil {
			return map[string]any{"res": "ok", "ct": hex.EncodeToString(out), "first": hex.EncodeToString(first), "paths": paths}
		}
		kind := c11ErrKind(err)
		if kind == "other" {
			kind = "other:" + err.Error()
		}
		return map[string]any{"res": kind, "paths": paths}
	}
	return map[string]any{"res": "badop"}
}
