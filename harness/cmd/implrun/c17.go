package main

// C17 — shell output reproduces values exactly.
//
// op "render": build an esc.Environment from the case, run the real renderValue (hook VerifC17Render in package cli)
//   for `open --format shell`, `env get --value shell` (redacted, redacted with other secret values, shown) and the
//   dotenv counterparts, and evaluate the shell scripts with real shell interpreters.
// op "sh":     evaluate a given script with the shell interpreters (validation of the Coq shell semantics).
//
// A shell observation is a projection: did the interpreter finish normally, was there any effect besides exported
// variables (output, error text, files created in the working directory, external commands/opens attempted, exit
// status), and the exported variables that differ from the interpreter's baseline environment or carry a name of
// the case.

import (
	"bytes"
	"context"
	"encoding/hex"
	"encoding/json"
	"io"
	"os"
	"os/exec"
	"regexp"
	"sort"
	"sync"
	"time"
	"unicode/utf8"

	"github.com/pulumi/esc"
	"github.com/pulumi/esc/cmd/esc/cli"
	"mvdan.cc/sh/v3/expand"
	"mvdan.cc/sh/v3/interp"
	"mvdan.cc/sh/v3/syntax"
)

func init() { register("C17", c17) }

const c17Marker = "\nVERIF-C17-MARK\n"
const c17Trailer = "\nprintf '\\nVERIF-C17-MARK\\n'; /usr/bin/env -0\n"

var c17BaseEnv = []string{"PATH=/usr/bin:/bin", "HOME=/verif-c17-home", "CANARY=canary-was-expanded", "USER=canary-user"}

func unhex(s string) []byte {
	b, _ := hex.DecodeString(s)
	return b
}

func hx(b []byte) string { return hex.EncodeToString(b) }

// ---- external interpreters -----------------------------------------------------------------------

type c17Raw struct {
	finished bool // marker reached and exit status 0
	pre      []byte
	stderr   bool
	env      map[string]string
}

func c17Exec(shell string, script []byte, dir string) c17Raw {
	ctx, cancel := context.WithTimeout(context.Background(), 20*time.Second)
	defer cancel()
	cmd := exec.CommandContext(ctx, shell, "-c", string(script)+c17Trailer)
	cmd.Env = c17BaseEnv
	cmd.Dir = dir
	var so, se bytes.Buffer
	cmd.Stdout, cmd.Stderr = &so, &se
	err := cmd.Run()
	r := c17Raw{stderr: se.Len() != 0}
	out := so.Bytes()
	i := bytes.LastIndex(out, []byte(c17Marker))
	if i < 0 {
		r.pre = out
		return r
	}
	r.pre = out[:i]
	r.finished = err == nil
	r.env = map[string]string{}
	for _, kv := range bytes.Split(out[i+len(c17Marker):], []byte{0}) {
		if len(kv) == 0 {
			continue
		}
		j := bytes.IndexByte(kv, '=')
		if j < 0 {
			r.env[string(kv)] = ""
			continue
		}
		r.env[string(kv[:j])] = string(kv[j+1:])
	}
	return r
}

var (
	c17BaselineMu sync.Mutex
	c17Baselines  = map[string]map[string]string{}
)

// baseline environment of an interpreter: what the trailer reports after an empty script (PWD is the directory).
func c17Baseline(shell, dir string) map[string]string {
	c17BaselineMu.Lock()
	defer c17BaselineMu.Unlock()
	b, ok := c17Baselines[shell]
	if !ok {
		r := c17Exec(shell, nil, dir)
		b = r.env
		if b == nil {
			b = map[string]string{}
		}
		delete(b, "PWD")
		c17Baselines[shell] = b
	}
	out := map[string]string{"PWD": dir}
	for k, v := range b {
		out[k] = v
	}
	return out
}

func c17DirDirty(dir string) bool {
	es, err := os.ReadDir(dir)
	if err != nil {
		return true
	}
	for _, e := range es {
		os.RemoveAll(dir + "/" + e.Name())
	}
	return len(es) != 0
}

func c17Project(finished, dirty bool, env, base map[string]string, names map[string]bool) map[string]any {
	vars := [][2]string{}
	if finished {
		for k, v := range env {
			if bv, ok := base[k]; names[k] || !ok || bv != v {
				vars = append(vars, [2]string{hx([]byte(k)), hx([]byte(v))})
			}
		}
		for k := range base {
			if _, ok := env[k]; !ok {
				dirty = true // a baseline variable disappeared
			}
		}
	}
	sort.Slice(vars, func(i, j int) bool {
		return string(unhex(vars[i][0])) < string(unhex(vars[j][0]))
	})
	return map[string]any{"fin": finished, "clean": !dirty, "vars": vars}
}

func c17RunExternal(shell string, script []byte, names map[string]bool, dir string) map[string]any {
	if bytes.IndexByte(script, 0) >= 0 {
		return map[string]any{"skip": "nul"}
	}
	base := c17Baseline(shell, dir)
	r := c17Exec(shell, script, dir)
	dirty := c17DirDirty(dir) || len(r.pre) != 0 || r.stderr
	return c17Project(r.finished, dirty, r.env, base, names)
}

// ---- mvdan.cc/sh (in process; external commands and file opens are recorded, never performed) ---------------

type c17MvdanRun struct {
	parsed  bool
	err     error
	touched bool
	vars    map[string]expand.Variable
}

func c17Mvdan(script []byte, dir string) c17MvdanRun {
	// the Bash dialect, as in esc's own CLI tests: with the POSIX dialect this interpreter does not treat
	// `export` as a builtin at all
	file, err := syntax.NewParser().Parse(bytes.NewReader(script), "")
	if err != nil {
		return c17MvdanRun{}
	}
	res := c17MvdanRun{parsed: true}
	var so, se bytes.Buffer
	runner, err := interp.New(
		interp.Env(expand.ListEnviron(c17BaseEnv...)),
		interp.Dir(dir),
		interp.StdIO(nil, &so, &se),
		interp.ExecHandler(func(ctx context.Context, args []string) error {
			res.touched = true
			return nil
		}),
		interp.OpenHandler(func(ctx context.Context, path string, flag int, perm os.FileMode) (io.ReadWriteCloser, error) {
			res.touched = true
			return nil, os.ErrPermission
		}),
	)
	if err != nil {
		return c17MvdanRun{}
	}
	ctx, cancel := context.WithTimeout(context.Background(), 20*time.Second)
	defer cancel()
	res.err = runner.Run(ctx, file)
	res.vars = runner.Vars
	if so.Len() != 0 || se.Len() != 0 {
		res.touched = true
	}
	return res
}

var c17MvdanBase map[string]expand.Variable

// two backslashes followed by a character that a backslash escapes inside double quotes
var c17DoubleBackslashEscape = regexp.MustCompile("\\\\\\\\[\\\\\"$`]")

// c17UnquotedBackslash reports whether a backslash occurs outside single and double quotes (a coarse scan that is
// only used to decide whether mvdan.cc/sh's answer is taken into account).
func c17UnquotedBackslash(script []byte) bool {
	state := byte('u')
	for i := 0; i < len(script); i++ {
		c := script[i]
		switch state {
		case 'u':
			switch c {
			case '\\':
				return true
			case '"':
				state = 'd'
			case '\'':
				state = 's'
			}
		case 'd':
			if c == '\\' {
				i++
			} else if c == '"' {
				state = 'u'
			}
		case 's':
			if c == '\'' {
				state = 'u'
			}
		}
	}
	return false
}

func c17RunMvdan(script []byte, names map[string]bool, dir string) (res map[string]any) {
	if bytes.IndexByte(script, 0) >= 0 {
		return map[string]any{"skip": "nul"}
	}
	if !utf8.Valid(script) {
		// this interpreter's parser rejects scripts that are not valid UTF-8 outright
		return map[string]any{"skip": "invalid-utf8"}
	}
	if c17UnquotedBackslash(script) {
		// it also keeps the backslash of an unquoted escape in the arguments of export (export A=\"x yields \"x)
		return map[string]any{"skip": "unquoted-backslash"}
	}
	if c17DoubleBackslashEscape.Match(script) {
		// mvdan.cc/sh v3.7.0 mis-evaluates an escaped backslash that is followed by another escapable character
		// inside double quotes ("\\\$" yields $ instead of \$: expand drops the escaping backslash without skipping
		// the escaped one); dash and bash agree with POSIX there.  Its answer is not used for such scripts.
		return map[string]any{"skip": "double-backslash"}
	}
	defer func() {
		if r := recover(); r != nil {
			res = map[string]any{"skip": "interpreter-panic"}
		}
	}()
	if c17MvdanBase == nil {
		c17MvdanBase = c17Mvdan(nil, dir).vars
		if c17MvdanBase == nil {
			c17MvdanBase = map[string]expand.Variable{}
		}
	}
	r := c17Mvdan(script, dir)
	if !r.parsed {
		return map[string]any{"fin": false, "clean": false, "vars": [][2]string{}}
	}
	base, env := map[string]string{}, map[string]string{}
	for k, v := range c17MvdanBase {
		if v.IsSet() && v.Exported {
			base[k] = v.Str
		}
	}
	if _, ok := base["PWD"]; ok {
		base["PWD"] = dir
	}
	dirty := r.touched
	for k, v := range r.vars {
		if v.IsSet() && v.Exported && v.Kind == expand.String {
			env[k] = v.Str
			continue
		}
		// not exported: must be an untouched baseline shell variable
		if b, ok := c17MvdanBase[k]; !ok || b.Exported || (k != "PWD" && b.String() != v.String()) {
			dirty = true
		}
	}
	if c17DirDirty(dir) {
		dirty = true
	}
	return c17Project(r.err == nil, dirty, env, base, names)
}

func c17RunAll(script []byte, names map[string]bool) map[string]any {
	dir, err := os.MkdirTemp("", "verif-c17-")
	if err != nil {
		return map[string]any{"error": "mkdtemp"}
	}
	defer os.RemoveAll(dir)
	return map[string]any{
		"dash":  c17RunExternal("/bin/sh", script, names, dir),
		"bash":  c17RunExternal("/bin/bash", script, names, dir),
		"mvdan": c17RunMvdan(script, names, dir),
	}
}

// ---- building the environment ---------------------------------------------------------------------------------

func c17Value(m map[string]any, alt bool) esc.Value {
	text := string(unhex(str(m, "v")))
	secret, _ := m["secret"].(bool)
	unknown, _ := m["unknown"].(bool)
	if alt && secret {
		text = string(unhex(str(m, "alt")))
	}
	var v any
	switch str(m, "kind") {
	case "null":
		v = nil
	case "bool":
		v = text == "true"
	case "num":
		v = json.Number(text)
	case "str":
		v = text
	case "arr":
		v = []esc.Value{esc.NewValue(text)}
	case "obj":
		v = map[string]esc.Value{"k": esc.NewValue(text)}
	}
	return esc.Value{Value: v, Secret: secret, Unknown: unknown}
}

func c17Section(c map[string]any, key string, alt bool) (map[string]esc.Value, bool) {
	raw, ok := c[key].([]any)
	if !ok {
		return nil, false
	}
	out := map[string]esc.Value{}
	for _, x := range raw {
		m, _ := x.(map[string]any)
		out[string(unhex(str(m, "k")))] = c17Value(m, alt)
	}
	return out, true
}

func c17Env(c map[string]any, alt bool) *esc.Environment {
	props := map[string]esc.Value{}
	if m, ok := c17Section(c, "vars", alt); ok {
		props["environmentVariables"] = esc.NewValue(m)
	}
	if m, ok := c17Section(c, "files", alt); ok {
		props["files"] = esc.NewValue(m)
	}
	return &esc.Environment{Properties: props}
}

func c17Names(c map[string]any) map[string]bool {
	names := map[string]bool{}
	for _, key := range []string{"vars", "files"} {
		raw, _ := c[key].([]any)
		for _, x := range raw {
			m, _ := x.(map[string]any)
			if k := str(m, "kind"); k == "arr" || k == "obj" {
				continue // not a scalar: never rendered
			}
			names[string(unhex(str(m, "k")))] = true
		}
	}
	return names
}

func c17(c map[string]any) map[string]any {
	switch str(c, "op") {
	case "sh":
		names := map[string]bool{}
		if l, ok := c["names"].([]any); ok {
			for _, n := range l {
				s, _ := n.(string)
				names[string(unhex(s))] = true
			}
		}
		return map[string]any{"sh": c17RunAll(unhex(str(c, "script")), names)}
	case "render":
		prefix := string(unhex(str(c, "prefix")))
		env, envAlt := c17Env(c, false), c17Env(c, true)
		names := c17Names(c)
		res := map[string]any{}
		render := func(name string, e *esc.Environment, format string, pretend, show bool) string {
			out, _, err := cli.VerifC17Render(e, format, pretend, show, prefix)
			if err != nil {
				res[name+"_err"] = true
			}
			res[name] = hx([]byte(out))
			return out
		}
		open := render("open_shell", env, "shell", false, true)
		red := render("get_shell_red", env, "shell", true, false)
		render("get_shell_red_alt", envAlt, "shell", true, false)
		render("get_shell_show", env, "shell", true, true)
		render("open_dotenv", env, "dotenv", false, true)
		render("get_dotenv_red", env, "dotenv", true, false)
		render("get_dotenv_red_alt", envAlt, "dotenv", true, false)
		res["open_sh"] = c17RunAll([]byte(open), names)
		res["red_sh"] = c17RunAll([]byte(red), names)
		return res
	}
	return map[string]any{"res": "badop"}
}
