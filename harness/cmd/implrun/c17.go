package main

// C17 — shell output reproduces values exactly.
//
// op "render": build an esc.Environment from the case and produce the eight renderings twice:
//   "cli":    through the real commands, in process (hook VerifC17Run = cli.New + cobra with a fake backend client that
//             serves the environment): `esc open --format shell`, `esc env get --value shell` (secrets hidden, hidden with
//             other secret values, `--show-secrets`), `esc env open --format dotenv`, `esc env get --value dotenv` (hidden,
//             hidden/other, `--show-secrets`).  This is where the pretend / showSecrets arguments that env_get.go and
//             env_open.go pass to renderValue are observed;
//   "direct": through the unexported renderValue itself (hook VerifC17Render), with the flags those callers are
//             supposed to pass.
//   The shell scripts of both are evaluated with real shell interpreters (one evaluation per distinct script).
// op "sh":     evaluate a given script with the shell interpreters (validation of the Coq shell semantics).
//
// A shell observation is a projection: did the interpreter finish normally, was there any effect besides exported
// variables (output, error text, files created in the working directory, external commands/opens attempted, exit
// status), and the exported variables that differ from the interpreter's baseline environment or carry a name of
// the case.

import (
	"bytes"
	"context"
	"encoding/hex"
	"encoding/json"
	"io"
	"os"
	"os/exec"
	"path/filepath"
	"regexp"
	"sort"
	"strconv"
	"strings"
	"sync"
	"time"
	"unicode/utf8"

	"github.com/pulumi/esc"
	"github.com/pulumi/esc/cmd/esc/cli"
	"github.com/pulumi/esc/cmd/esc/cli/client"
	"mvdan.cc/sh/v3/expand"
	"mvdan.cc/sh/v3/interp"
	"mvdan.cc/sh/v3/syntax"
)

func init() { register("C17", c17) }

const c17Marker = "\nVERIF-C17-MARK\n"
const c17Marker2 = "\nVERIF-C17-MARK2\n"

// a value of more than 128 KiB - len(NAME=) cannot be handed to /usr/bin/env (Linux limits one argv/envp string to 128 KiB):
// for scripts above c17BigLimit bytes the trailer prints the case's variables with the shell's builtin printf and shortens
// every value of more than c17BigLimit CHARACTERS (${#NAME} counts characters in a multi-byte locale the script itself
// may have selected; 30000 characters are at most 120000 bytes) to c17Big before env is started
const c17BigLimit = 30000
const c17Big = "VERIF-C17-BIG"

var c17BaseEnv = []string{"PATH=/usr/bin:/bin", "HOME=/verif-c17-home", "CANARY=canary-was-expanded", "USER=canary-user"}

var c17NameRe = regexp.MustCompile(`^[A-Za-z_][A-Za-z0-9_]*$`)

func unhex(s string) []byte {
	b, _ := hex.DecodeString(s)
	return b
}

func hx(b []byte) string { return hex.EncodeToString(b) }

// c17Trailer is appended to the script under test: a marker, (for large scripts) the values of the case's variables
// printed by the builtin printf, a second marker, and the exported environment as /usr/bin/env -0 sees it.
func c17Trailer(script []byte, names map[string]bool) string {
	var b strings.Builder
	b.WriteString("\nprintf '\\nVERIF-C17-MARK\\n'\n")
	var big []string
	if len(script) > c17BigLimit {
		for n := range names {
			if c17NameRe.MatchString(n) {
				big = append(big, n)
			}
		}
		sort.Strings(big)
	}
	for _, n := range big {
		b.WriteString("printf '%s=%s\\0' " + n + " \"$" + n + "\"\n")
	}
	b.WriteString("printf '\\nVERIF-C17-MARK2\\n'\n")
	for _, n := range big {
		b.WriteString("[ \"${#" + n + "}\" -gt " + strconv.Itoa(c17BigLimit) + " ] && " + n + "=" + c17Big + "\n")
	}
	b.WriteString("/usr/bin/env -0\n")
	return b.String()
}

// ---- time budgets: scaled with a measured no-op ---------------------------------------------------------------
//
// An interpreter run gets 20 s + 1000 x (the measured cost of running the empty script in the same interpreter) + 1 s
// per 64 KiB of script.  When a run exceeds its budget the no-op is measured again: if the machine is so loaded that
// the no-op itself takes more than 1/100 of the budget, the budget grows with the new measurement and the script is
// run again (at most three times, then the interpreter's answer is "skip: timeout-under-load", which is counted and is
// never a pass); if the no-op is fast, the script really does not terminate and the observation is "not finished".

var (
	c17NoopMu sync.Mutex
	c17Noop   = map[string]time.Duration{}
)

func c17SetNoop(who string, d time.Duration) {
	c17NoopMu.Lock()
	if d > c17Noop[who] {
		c17Noop[who] = d
	}
	c17NoopMu.Unlock()
}

func c17Budget(who string, size int) time.Duration {
	c17NoopMu.Lock()
	u := c17Noop[who]
	c17NoopMu.Unlock()
	return 20*time.Second + 1000*u + time.Duration(size/65536+1)*time.Second
}

// c17WithBudget runs f under the budget of interpreter who; f reports whether it ran out of time.  noop measures the
// empty script.  Result: ok=false means "skip: timeout-under-load".
func c17WithBudget(who string, size int, noop func() time.Duration, f func(budget time.Duration) (timedOut bool)) (ok bool) {
	for attempt := 0; attempt < 3; attempt++ {
		budget := c17Budget(who, size)
		if !f(budget) {
			return true
		}
		u := noop()
		if u <= budget/100 {
			return true // the machine is responsive: the script itself does not finish (f's last observation stands)
		}
		c17SetNoop(who, u)
	}
	return false
}

// ---- external interpreters -----------------------------------------------------------------------

type c17Raw struct {
	finished bool // marker reached and exit status 0
	pre      []byte
	stderr   bool
	env      map[string]string
}

func c17SplitEnv(b []byte, into map[string]string) {
	for _, kv := range bytes.Split(b, []byte{0}) {
		if len(kv) == 0 {
			continue
		}
		j := bytes.IndexByte(kv, '=')
		if j < 0 {
			into[string(kv)] = ""
			continue
		}
		into[string(kv[:j])] = string(kv[j+1:])
	}
}

// c17Exec evaluates the file scriptPath (the script under test followed by the trailer) with the interpreter: the
// script is read from a file, never passed as an argument, so its size is not limited by ARG_MAX.
func c17Exec(shell, scriptPath, dir string, budget time.Duration) (r c17Raw, timedOut bool) {
	ctx, cancel := context.WithTimeout(context.Background(), budget)
	defer cancel()
	cmd := exec.CommandContext(ctx, shell, scriptPath)
	cmd.Env = c17BaseEnv
	cmd.Dir = dir
	var so, se bytes.Buffer
	cmd.Stdout, cmd.Stderr = &so, &se
	err := cmd.Run()
	timedOut = ctx.Err() != nil
	r = c17Raw{stderr: se.Len() != 0}
	out := so.Bytes()
	i := bytes.LastIndex(out, []byte(c17Marker))
	j := bytes.LastIndex(out, []byte(c17Marker2))
	if i < 0 || j < i {
		r.pre = out
		return r, timedOut
	}
	r.pre = out[:i]
	r.finished = err == nil
	printed := map[string]string{}
	c17SplitEnv(out[i+len(c17Marker):j], printed)
	r.env = map[string]string{}
	c17SplitEnv(out[j+len(c17Marker2):], r.env)
	for k, v := range r.env {
		if v == c17Big {
			if pv, ok := printed[k]; ok {
				r.env[k] = pv
			}
		}
	}
	return r, timedOut
}

func c17WriteScript(script []byte, names map[string]bool) (string, error) {
	f, err := os.CreateTemp("", "verif-c17-script-")
	if err != nil {
		return "", err
	}
	_, err = f.Write(append(append([]byte(nil), script...), c17Trailer(script, names)...))
	if cerr := f.Close(); err == nil {
		err = cerr
	}
	return f.Name(), err
}

func c17NoopExternal(shell, dir string) (time.Duration, map[string]string) {
	path, err := c17WriteScript(nil, nil)
	if err != nil {
		return 0, nil
	}
	defer os.Remove(path)
	t0 := time.Now()
	r, _ := c17Exec(shell, path, dir, 10*time.Minute)
	return time.Since(t0), r.env
}

var (
	c17BaselineMu sync.Mutex
	c17Baselines  = map[string]map[string]string{}
)

// baseline environment of an interpreter: what the trailer reports after an empty script (PWD is the directory).  The
// same run is the first measurement of the interpreter's no-op cost.
func c17Baseline(shell, dir string) map[string]string {
	c17BaselineMu.Lock()
	defer c17BaselineMu.Unlock()
	b, ok := c17Baselines[shell]
	if !ok {
		var d time.Duration
		d, b = c17NoopExternal(shell, dir)
		c17SetNoop(shell, d)
		if b == nil {
			b = map[string]string{}
		}
		delete(b, "PWD")
		c17Baselines[shell] = b
	}
	out := map[string]string{"PWD": dir}
	for k, v := range b {
		out[k] = v
	}
	return out
}

func c17DirDirty(dir string) bool {
	es, err := os.ReadDir(dir)
	if err != nil {
		return true
	}
	for _, e := range es {
		os.RemoveAll(filepath.Join(dir, e.Name()))
	}
	return len(es) != 0
}

func c17Project(finished, dirty bool, env, base map[string]string, names map[string]bool) map[string]any {
	vars := [][2]string{}
	if finished {
		for k, v := range env {
			if bv, ok := base[k]; names[k] || !ok || bv != v {
				vars = append(vars, [2]string{hx([]byte(k)), hx([]byte(v))})
			}
		}
		for k := range base {
			if _, ok := env[k]; !ok {
				dirty = true // a baseline variable disappeared
			}
		}
	}
	sort.Slice(vars, func(i, j int) bool {
		return string(unhex(vars[i][0])) < string(unhex(vars[j][0]))
	})
	return map[string]any{"fin": finished, "clean": !dirty, "vars": vars}
}

func c17RunExternal(shell string, script []byte, scriptPath string, names map[string]bool, dir string) map[string]any {
	if bytes.IndexByte(script, 0) >= 0 {
		return map[string]any{"skip": "nul"}
	}
	base := c17Baseline(shell, dir)
	var r c17Raw
	ok := c17WithBudget(shell, len(script),
		func() time.Duration { d, _ := c17NoopExternal(shell, dir); return d },
		func(budget time.Duration) (timedOut bool) {
			c17DirDirty(dir)
			r, timedOut = c17Exec(shell, scriptPath, dir, budget)
			return timedOut
		})
	if !ok {
		c17DirDirty(dir)
		return map[string]any{"skip": "timeout-under-load"}
	}
	dirty := c17DirDirty(dir) || len(r.pre) != 0 || r.stderr
	return c17Project(r.finished, dirty, r.env, base, names)
}

// ---- mvdan.cc/sh (in process; external commands and file opens are recorded, never performed) ---------------

type c17MvdanRun struct {
	parsed   bool
	err      error
	touched  bool
	timedOut bool
	vars     map[string]expand.Variable
}

func c17Mvdan(script []byte, dir string, budget time.Duration) c17MvdanRun {
	// the Bash dialect, as in esc's own CLI tests: with the POSIX dialect this interpreter does not treat
	// `export` as a builtin at all
	file, err := syntax.NewParser().Parse(bytes.NewReader(script), "")
	if err != nil {
		return c17MvdanRun{}
	}
	res := c17MvdanRun{parsed: true}
	var so, se bytes.Buffer
	runner, err := interp.New(
		interp.Env(expand.ListEnviron(c17BaseEnv...)),
		interp.Dir(dir),
		interp.StdIO(nil, &so, &se),
		interp.ExecHandler(func(ctx context.Context, args []string) error {
			res.touched = true
			return nil
		}),
		interp.OpenHandler(func(ctx context.Context, path string, flag int, perm os.FileMode) (io.ReadWriteCloser, error) {
			res.touched = true
			return nil, os.ErrPermission
		}),
	)
	if err != nil {
		return c17MvdanRun{}
	}
	ctx, cancel := context.WithTimeout(context.Background(), budget)
	defer cancel()
	res.err = runner.Run(ctx, file)
	res.timedOut = ctx.Err() != nil
	res.vars = runner.Vars
	if so.Len() != 0 || se.Len() != 0 {
		res.touched = true
	}
	return res
}

var c17MvdanBase map[string]expand.Variable

// two backslashes followed by a character that a backslash escapes inside double quotes
var c17DoubleBackslashEscape = regexp.MustCompile("\\\\\\\\[\\\\\"$`]")

// c17UnquotedBackslash reports whether a backslash occurs outside single and double quotes (a coarse scan that is
// only used to decide whether mvdan.cc/sh's answer is taken into account).
func c17UnquotedBackslash(script []byte) bool {
	state := byte('u')
	for i := 0; i < len(script); i++ {
		c := script[i]
		switch state {
		case 'u':
			switch c {
			case '\\':
				return true
			case '"':
				state = 'd'
			case '\'':
				state = 's'
			}
		case 'd':
			if c == '\\' {
				i++
			} else if c == '"' {
				state = 'u'
			}
		case 's':
			if c == '\'' {
				state = 'u'
			}
		}
	}
	return false
}

func c17RunMvdan(script []byte, names map[string]bool, dir string) (res map[string]any) {
	if bytes.IndexByte(script, 0) >= 0 {
		return map[string]any{"skip": "nul"}
	}
	if !utf8.Valid(script) {
		// this interpreter's parser rejects scripts that are not valid UTF-8 outright
		return map[string]any{"skip": "invalid-utf8"}
	}
	if c17UnquotedBackslash(script) {
		// it also keeps the backslash of an unquoted escape in the arguments of export (export A=\"x yields \"x)
		return map[string]any{"skip": "unquoted-backslash"}
	}
	if bytes.Contains(script, []byte("\\\r\n")) {
		// mvdan.cc/sh v3.7.0 treats backslash-CR-LF like backslash-LF (a line continuation inside double quotes, and it
		// drops the CR inside single quotes); dash and bash keep the three bytes.  Its answer is not used.
		return map[string]any{"skip": "backslash-crlf"}
	}
	if c17DoubleBackslashEscape.Match(script) {
		// mvdan.cc/sh v3.7.0 mis-evaluates an escaped backslash that is followed by another escapable character
		// inside double quotes ("\\\$" yields $ instead of \$: expand drops the escaping backslash without skipping
		// the escaped one); dash and bash agree with POSIX there.  Its answer is not used for such scripts.
		return map[string]any{"skip": "double-backslash"}
	}
	defer func() {
		if r := recover(); r != nil {
			res = map[string]any{"skip": "interpreter-panic"}
		}
	}()
	noop := func() time.Duration {
		t0 := time.Now()
		c17Mvdan(nil, dir, 10*time.Minute)
		return time.Since(t0)
	}
	if c17MvdanBase == nil {
		t0 := time.Now()
		c17MvdanBase = c17Mvdan(nil, dir, 10*time.Minute).vars
		c17SetNoop("mvdan", time.Since(t0))
		if c17MvdanBase == nil {
			c17MvdanBase = map[string]expand.Variable{}
		}
	}
	var r c17MvdanRun
	if !c17WithBudget("mvdan", len(script), noop, func(budget time.Duration) bool {
		c17DirDirty(dir)
		r = c17Mvdan(script, dir, budget)
		return r.timedOut
	}) {
		c17DirDirty(dir)
		return map[string]any{"skip": "timeout-under-load"}
	}
	if !r.parsed {
		return map[string]any{"fin": false, "clean": false, "vars": [][2]string{}}
	}
	base, env := map[string]string{}, map[string]string{}
	for k, v := range c17MvdanBase {
		if v.IsSet() && v.Exported {
			base[k] = v.Str
		}
	}
	if _, ok := base["PWD"]; ok {
		base["PWD"] = dir
	}
	dirty := r.touched
	for k, v := range r.vars {
		if v.IsSet() && v.Exported && v.Kind == expand.String {
			env[k] = v.Str
			continue
		}
		// not exported: must be an untouched baseline shell variable
		if b, ok := c17MvdanBase[k]; !ok || b.Exported || (k != "PWD" && b.String() != v.String()) {
			dirty = true
		}
	}
	if c17DirDirty(dir) {
		dirty = true
	}
	return c17Project(r.err == nil, dirty, env, base, names)
}

func c17RunAll(script []byte, names map[string]bool) map[string]any {
	dir, err := os.MkdirTemp("", "verif-c17-")
	if err != nil {
		return map[string]any{"error": "mkdtemp"}
	}
	defer os.RemoveAll(dir)
	// the script file lives outside the (empty) working directory the interpreters run in
	path, err := c17WriteScript(script, names)
	if path != "" {
		defer os.Remove(path)
	}
	if err != nil {
		return map[string]any{"error": "script file"}
	}
	return map[string]any{
		"dash":  c17RunExternal("/bin/sh", script, path, names, dir),
		"bash":  c17RunExternal("/bin/bash", script, path, names, dir),
		"mvdan": c17RunMvdan(script, names, dir),
	}
}

// ---- building the environment ---------------------------------------------------------------------------------

func c17Value(m map[string]any, alt bool) esc.Value {
	text := string(unhex(str(m, "v")))
	secret, _ := m["secret"].(bool)
	unknown, _ := m["unknown"].(bool)
	if alt && secret {
		text = string(unhex(str(m, "alt")))
	}
	var v any
	switch str(m, "kind") {
	case "null":
		v = nil
	case "bool":
		v = text == "true"
	case "num":
		v = json.Number(text)
	case "str":
		v = text
	case "arr":
		v = []esc.Value{esc.NewValue(text)}
	case "obj":
		v = map[string]esc.Value{"k": esc.NewValue(text)}
	}
	return esc.Value{Value: v, Secret: secret, Unknown: unknown}
}

func c17Section(c map[string]any, key string, alt bool) (map[string]esc.Value, bool) {
	raw, ok := c[key].([]any)
	if !ok {
		return nil, false
	}
	out := map[string]esc.Value{}
	for _, x := range raw {
		m, _ := x.(map[string]any)
		out[string(unhex(str(m, "k")))] = c17Value(m, alt)
	}
	return out, true
}

func c17Env(c map[string]any, alt bool) *esc.Environment {
	props := map[string]esc.Value{}
	if m, ok := c17Section(c, "vars", alt); ok {
		props["environmentVariables"] = esc.NewValue(m)
	}
	if m, ok := c17Section(c, "files", alt); ok {
		props["files"] = esc.NewValue(m)
	}
	return &esc.Environment{Properties: props}
}

func c17Names(c map[string]any) map[string]bool {
	names := map[string]bool{}
	for _, key := range []string{"vars", "files"} {
		raw, _ := c[key].([]any)
		for _, x := range raw {
			m, _ := x.(map[string]any)
			if k := str(m, "kind"); k == "arr" || k == "obj" {
				continue // not a scalar: never rendered
			}
			names[string(unhex(str(m, "k")))] = true
		}
	}
	return names
}

// ---- backend stub for the commands: serves the case's environment, secrets included, whatever it is asked ----------

type c17Client struct {
	client.Client // nil: any method the commands are not expected to call panics (and is reported)
	env           *esc.Environment
}

func (c *c17Client) Insecure() bool { return false }
func (c *c17Client) URL() string    { return "https://api.pulumi.com" }

func (c *c17Client) EnvironmentExists(ctx context.Context, orgName, projectName, envName string) (bool, error) {
	return true, nil
}

func (c *c17Client) GetEnvironment(ctx context.Context, orgName, projectName, envName, version string,
	decrypt bool) ([]byte, string, int, error) {
	return []byte("values: {}\n"), "etag-1", 1, nil
}

func (c *c17Client) CheckYAMLEnvironment(ctx context.Context, orgName string, yaml []byte,
	opts ...client.CheckYAMLOption) (*esc.Environment, []client.EnvironmentDiagnostic, error) {
	return c.env, nil, nil
}

func (c *c17Client) OpenEnvironment(ctx context.Context, orgName, projectName, envName, version string,
	duration time.Duration) (string, []client.EnvironmentDiagnostic, error) {
	return "open-1", nil, nil
}

func (c *c17Client) GetOpenEnvironmentWithProject(ctx context.Context, orgName, projectName, envName,
	openEnvID string) (*esc.Environment, error) {
	return c.env, nil
}

// c17 adds the measured no-op costs (they scale the time budgets; reported in the evidence, never compared)
func c17(c map[string]any) map[string]any {
	res := c17Case(c)
	noop := map[string]int64{}
	c17NoopMu.Lock()
	for who, d := range c17Noop {
		noop[filepath.Base(who)] = d.Microseconds()
	}
	c17NoopMu.Unlock()
	res["noop_us"] = noop
	return res
}

func c17Case(c map[string]any) map[string]any {
	switch str(c, "op") {
	case "sh":
		names := map[string]bool{}
		if l, ok := c["names"].([]any); ok {
			for _, n := range l {
				s, _ := n.(string)
				names[string(unhex(s))] = true
			}
		}
		return map[string]any{"sh": c17RunAll(unhex(str(c, "script")), names)}
	case "render":
		prefix := string(unhex(str(c, "prefix")))
		names := c17Names(c)
		shells := map[string]map[string]any{} // one evaluation per distinct script
		runAll := func(script string) map[string]any {
			if o, ok := shells[script]; ok {
				return o
			}
			o := c17RunAll([]byte(script), names)
			shells[script] = o
			return o
		}
		kind := func(render func(alt bool, format string, get, show bool) (string, bool)) map[string]any {
			res := map[string]any{}
			one := func(name string, alt bool, format string, get, show bool) string {
				out, ok := render(alt, format, get, show)
				if !ok {
					res[name+"_err"] = true
				}
				res[name] = hx([]byte(out))
				return out
			}
			open := one("open_shell", false, "shell", false, true)
			red := one("get_shell_red", false, "shell", true, false)
			one("get_shell_red_alt", true, "shell", true, false)
			one("get_shell_show", false, "shell", true, true)
			one("open_dotenv", false, "dotenv", false, true)
			one("get_dotenv_red", false, "dotenv", true, false)
			one("get_dotenv_red_alt", true, "dotenv", true, false)
			one("get_dotenv_show", false, "dotenv", true, true)
			res["open_sh"] = runAll(open)
			res["red_sh"] = runAll(red)
			return res
		}
		// every rendering starts from a freshly built environment: nothing is shared between the commands
		direct := kind(func(alt bool, format string, get, show bool) (string, bool) {
			out, _, err := cli.VerifC17Render(c17Env(c, alt), format, get, show, prefix)
			return out, err == nil
		})
		viaCLI := kind(func(alt bool, format string, get, show bool) (string, bool) {
			const ref = "org/proj/env"
			var args []string
			switch {
			case get:
				args = []string{"env", "get", ref, "--value", format}
				if show {
					args = append(args, "--show-secrets")
				}
			case format == "shell":
				args = []string{"open", ref, "--format", format} // the top-level alias
			default:
				args = []string{"env", "open", ref, "--format", format}
			}
			stdout, _, _, err := cli.VerifC17Run(&c17Client{env: c17Env(c, alt)}, args, prefix)
			return stdout, err == nil
		})
		return map[string]any{"direct": direct, "cli": viaCLI}
	}
	return map[string]any{"res": "badop"}
}
