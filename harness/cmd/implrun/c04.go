package main

import (
	"context"
	"encoding/hex"

	"github.com/pulumi/esc/eval"
)

func init() { register("C04", c04) }

// C04: encrypt a document with the real eval.EncryptSecrets, decrypt the result with eval.DecryptSecrets, and
// evaluate (eval.EvalEnvironment, echo provider, matching decrypter) both the plaintext and the encrypted form.
func c04(c map[string]any) map[string]any {
	src, _ := hex.DecodeString(str(c, "src"))
	ciph := cyToyCipher{key: byte(cyNum(c, "key")), pad: cyNum(c, "pad")}
	res := map[string]any{}
	in, e := cyYamlTree(src)
	if e != "" {
		res["in_err"] = e
		return res
	}
	res["in"] = in
	// the checker's verdict on the plaintext document; a panic inside the loader is an observation of its own
	loads := func() (st string) {
		defer func() {
			if r := recover(); r != nil {
				st = "panic"
			}
		}()
		if _, inErr, _ := cyLoadDiags(src); inErr {
			return "err"
		}
		return "ok"
	}()
	res["plain_loads"] = loads
	enc, err := eval.EncryptSecrets(context.Background(), "doc", src, ciph)
	res["enc_res"] = cyErrClass(err)
	if err != nil {
		return res
	}
	res["enc_text"] = hex.EncodeToString(enc)
	et, e := cyYamlTree(enc)
	if e != "" {
		res["enc_err"] = e
		return res
	}
	res["enc"] = et
	dec, err := eval.DecryptSecrets(context.Background(), "doc", enc, ciph)
	res["dec_res"] = cyErrClass(err)
	if err == nil {
		dt, e := cyYamlTree(dec)
		if e != "" {
			res["dec_err"] = e
		} else {
			res["dec"] = dt
		}
	}
	safeEval := func(text []byte) (out map[string]any) {
		defer func() {
			if r := recover(); r != nil {
				out = map[string]any{"st": "panic"}
			}
		}()
		st, canon, leaves, errs := cyEvalDoc(text, ciph)
		return map[string]any{"st": st, "canon": cyHex(canon), "leaves": leaves, "errs": errs}
	}
	res["ev_plain"] = safeEval(src)
	res["ev_enc"] = safeEval(enc)
	return res
}
