package main

// C18: the real esc.Value / esc.Expr / esc.Environment / schema.Schema through encoding/json.
// Objects are built from, and dumped to, a neutral descriptor by reflection (never via encoding/json), so that
// the model can be compared with what json.Marshal wrote and with what json.Unmarshal built:
//   null | true/false | {"i":"<dec>"} | {"s":"<hex>"} | {"n":"<hex>"} (json.Number) | {"f":"<text>"} (float64)
//   {"p":d} | {"l":[d..]} | {"m":[["<hexkey>",d]..]} (key-sorted) | {"st":[d..]} (exported fields, embedded
//   structs flattened) | {"a":[type,d]} (non-nil interface with its dynamic type)

import (
	"context"
	"encoding/hex"
	"encoding/json"
	"fmt"
	"reflect"
	"sort"
	"strconv"

	"github.com/pulumi/esc"
	"github.com/pulumi/esc/eval"
	"github.com/pulumi/esc/schema"
)

func init() { register("C18", c18) }

var c18Number = reflect.TypeOf(json.Number(""))

var c18Roots = map[string]reflect.Type{
	"Value":       reflect.TypeOf(esc.Value{}),
	"Expr":        reflect.TypeOf(esc.Expr{}),
	"Environment": reflect.TypeOf(esc.Environment{}),
	"Schema":      reflect.TypeOf(schema.Schema{}),
	"Trace":       reflect.TypeOf(esc.Trace{}),
	"Range":       reflect.TypeOf(esc.Range{}),
	"Pos":         reflect.TypeOf(esc.Pos{}),
	"Accessor":    reflect.TypeOf(esc.Accessor{}),
	"AccessExpr":  reflect.TypeOf(esc.AccessExpr{}),
	"BuiltinExpr": reflect.TypeOf(esc.BuiltinExpr{}),

	"Interpolation":             reflect.TypeOf(esc.Interpolation{}),
	"PropertyAccessor":          reflect.TypeOf(esc.PropertyAccessor{}),
	"EvaluatedExecutionContext": reflect.TypeOf(esc.EvaluatedExecutionContext{}),
}

type c18Bad struct{ msg string }

func c18fail(f string, a ...any) { panic(c18Bad{fmt.Sprintf(f, a...)}) }

// exported fields in declaration order, embedded structs flattened in place
func c18Fields(t reflect.Type) [][]int {
	var out [][]int
	for i := 0; i < t.NumField(); i++ {
		f := t.Field(i)
		if f.Anonymous && f.Type.Kind() == reflect.Struct {
			for _, ix := range c18Fields(f.Type) {
				out = append(out, append([]int{i}, ix...))
			}
			continue
		}
		if !f.IsExported() {
			continue
		}
		out = append(out, []int{i})
	}
	return out
}

func c18TypeDesc(t reflect.Type) any {
	switch t.Kind() {
	case reflect.Bool:
		return "bool"
	case reflect.Int:
		return "int"
	case reflect.Float64:
		return "fl"
	case reflect.String:
		if t == c18Number {
			return "num"
		}
		return "str"
	case reflect.Interface:
		return "any"
	case reflect.Ptr:
		return []any{"ptr", c18TypeDesc(t.Elem())}
	case reflect.Slice:
		return []any{"slice", c18TypeDesc(t.Elem())}
	case reflect.Map:
		return []any{"map", c18TypeDesc(t.Elem())}
	case reflect.Struct:
		return []any{"named", t.Name()}
	}
	c18fail("unsupported type %v", t)
	return nil
}

func c18GoType(d any) reflect.Type {
	switch x := d.(type) {
	case string:
		switch x {
		case "bool":
			return reflect.TypeOf(true)
		case "int":
			return reflect.TypeOf(0)
		case "str":
			return reflect.TypeOf("")
		case "num":
			return c18Number
		case "fl":
			return reflect.TypeOf(float64(0))
		case "any":
			return reflect.TypeOf((*any)(nil)).Elem()
		}
	case []any:
		if len(x) == 2 {
			switch x[0] {
			case "ptr":
				return reflect.PointerTo(c18GoType(x[1]))
			case "slice":
				return reflect.SliceOf(c18GoType(x[1]))
			case "map":
				return reflect.MapOf(reflect.TypeOf(""), c18GoType(x[1]))
			case "named":
				if t, ok := c18Roots[fmt.Sprint(x[1])]; ok {
					return t
				}
			}
		}
	}
	c18fail("unsupported type descriptor %v", d)
	return nil
}

func c18Hex(d any) string {
	s, _ := d.(string)
	b, err := hex.DecodeString(s)
	if err != nil {
		c18fail("bad hex")
	}
	return string(b)
}

func c18Build(t reflect.Type, d any) reflect.Value {
	v := reflect.New(t).Elem()
	m, _ := d.(map[string]any)
	switch t.Kind() {
	case reflect.Bool:
		b, ok := d.(bool)
		if !ok {
			c18fail("bool expected")
		}
		v.SetBool(b)
	case reflect.Int:
		n, err := strconv.ParseInt(fmt.Sprint(m["i"]), 10, 64)
		if err != nil {
			c18fail("int expected")
		}
		v.SetInt(n)
	case reflect.Float64:
		f, err := strconv.ParseFloat(fmt.Sprint(m["f"]), 64)
		if err != nil {
			c18fail("float expected")
		}
		v.SetFloat(f)
	case reflect.String:
		if t == c18Number {
			v.SetString(c18Hex(m["n"]))
		} else {
			v.SetString(c18Hex(m["s"]))
		}
	case reflect.Ptr:
		if d != nil {
			p := reflect.New(t.Elem())
			p.Elem().Set(c18Build(t.Elem(), m["p"]))
			v.Set(p)
		}
	case reflect.Slice:
		if d != nil {
			l, ok := m["l"].([]any)
			if !ok {
				c18fail("slice expected")
			}
			s := reflect.MakeSlice(t, len(l), len(l))
			for i, e := range l {
				s.Index(i).Set(c18Build(t.Elem(), e))
			}
			v.Set(s)
		}
	case reflect.Map:
		if d != nil {
			l, ok := m["m"].([]any)
			if !ok {
				c18fail("map expected")
			}
			mv := reflect.MakeMapWithSize(t, len(l))
			for _, e := range l {
				kv, ok := e.([]any)
				if !ok || len(kv) != 2 {
					c18fail("map entry expected")
				}
				mv.SetMapIndex(reflect.ValueOf(c18Hex(kv[0])), c18Build(t.Elem(), kv[1]))
			}
			v.Set(mv)
		}
	case reflect.Struct:
		l, ok := m["st"].([]any)
		fs := c18Fields(t)
		if !ok || len(l) != len(fs) {
			c18fail("struct %v: %d fields expected", t, len(fs))
		}
		for i, ix := range fs {
			fv := v.FieldByIndex(ix)
			fv.Set(c18Build(fv.Type(), l[i]))
		}
	case reflect.Interface:
		if d != nil {
			a, ok := m["a"].([]any)
			if !ok || len(a) != 2 {
				c18fail("interface expected")
			}
			v.Set(c18Build(c18GoType(a[0]), a[1]))
		}
	default:
		c18fail("unsupported kind %v", t.Kind())
	}
	return v
}

func c18Dump(v reflect.Value) any {
	t := v.Type()
	switch t.Kind() {
	case reflect.Bool:
		return v.Bool()
	case reflect.Int:
		return map[string]any{"i": strconv.FormatInt(v.Int(), 10)}
	case reflect.Float64:
		return map[string]any{"f": strconv.FormatFloat(v.Float(), 'g', -1, 64)}
	case reflect.String:
		h := hex.EncodeToString([]byte(v.String()))
		if t == c18Number {
			return map[string]any{"n": h}
		}
		return map[string]any{"s": h}
	case reflect.Ptr:
		if v.IsNil() {
			return nil
		}
		return map[string]any{"p": c18Dump(v.Elem())}
	case reflect.Slice:
		if v.IsNil() {
			return nil
		}
		l := make([]any, v.Len())
		for i := range l {
			l[i] = c18Dump(v.Index(i))
		}
		return map[string]any{"l": l}
	case reflect.Map:
		if v.IsNil() {
			return nil
		}
		keys := make([]string, 0, v.Len())
		for _, k := range v.MapKeys() {
			keys = append(keys, k.String())
		}
		sort.Strings(keys)
		l := make([]any, len(keys))
		for i, k := range keys {
			l[i] = []any{hex.EncodeToString([]byte(k)), c18Dump(v.MapIndex(reflect.ValueOf(k)))}
		}
		return map[string]any{"m": l}
	case reflect.Struct:
		fs := c18Fields(t)
		l := make([]any, len(fs))
		for i, ix := range fs {
			l[i] = c18Dump(v.FieldByIndex(ix))
		}
		return map[string]any{"st": l}
	case reflect.Interface:
		if v.IsNil() {
			return nil
		}
		e := v.Elem()
		return map[string]any{"a": []any{c18TypeDesc(e.Type()), c18Dump(e)}}
	}
	c18fail("unsupported kind %v", t.Kind())
	return nil
}

// roundTrip: obj is a pointer to the value.  A panic of encoding/json or of a custom (Un)MarshalJSON method is
// recorded as "rt_panic" (the dump of the original stays in res) instead of losing the case.
func c18RoundTrip(obj reflect.Value, res map[string]any) {
	defer func() {
		if r := recover(); r != nil {
			res["rt_panic"] = fmt.Sprint(r)
		}
	}()
	b1, err := json.Marshal(obj.Interface())
	if err != nil {
		res["j1"] = nil
		return
	}
	res["j1"] = string(b1)
	back := reflect.New(obj.Type().Elem())
	if err := json.Unmarshal(b1, back.Interface()); err != nil {
		res["rt"] = nil
		return
	}
	rt := c18Dump(back.Elem())
	res["rt"] = map[string]any{"v": rt}
	b2, err := json.Marshal(back.Interface())
	if err != nil {
		res["j2"] = nil
		return
	}
	res["j2"] = string(b2)
	// decoding into a value that is NOT fresh (a client that reuses its variable):
	// (1) the same document once more into the object just decoded must leave it as it is;
	// (2) the document of X decoded into a copy of X itself must give what decoding it into a fresh value gives, up to
	//     nil-versus-empty collections (encoding/json merges: keys that are present overwrite, omitted fields keep what
	//     is there - the original's non-nil empty collections - except inside map values, which are always rebuilt).
	res["again"] = json.Unmarshal(b1, back.Interface()) == nil && reflect.DeepEqual(c18Dump(back.Elem()), rt)
	cp := reflect.New(obj.Type().Elem())
	cp.Elem().Set(c18Build(obj.Type().Elem(), c18Plain(c18Dump(obj.Elem()))))
	intoSame := json.Unmarshal(b1, cp.Interface()) == nil && reflect.DeepEqual(c18Norm(c18Dump(cp.Elem())), c18Norm(rt))
	// (3) ... and so must decoding it into a value of the same SHAPE with other contents (every non-zero string,
	//     number and integer of X replaced: all of them are written in the document, so all of them are overwritten):
	//     a decoder that keeps or appends to what its target held shows here.
	other := reflect.New(obj.Type().Elem())
	other.Elem().Set(c18Build(obj.Type().Elem(), c18Perturb(c18Plain(c18Dump(obj.Elem())))))
	intoOther := json.Unmarshal(b1, other.Interface()) == nil && reflect.DeepEqual(c18Norm(c18Dump(other.Elem())), c18Norm(rt))
	res["into_orig"] = intoSame && intoOther
	if !intoSame {
		res["into_same_differs"] = true
	}
	if !intoOther {
		res["into_other_differs"] = true
	}
}

// c18Perturb: the same shape (nil-ness, lengths, map keys, dynamic types, booleans) with every non-empty string,
// non-empty json.Number and non-zero integer changed.
func c18Perturb(d any) any {
	switch x := d.(type) {
	case map[string]any:
		out := map[string]any{}
		for k, v := range x {
			switch k {
			case "s":
				if h, _ := v.(string); h != "" {
					out[k] = "7e" + h // "~" + the old text
				} else {
					out[k] = v
				}
			case "n":
				if h, _ := v.(string); h != "" {
					out[k] = "373737" // 777
				} else {
					out[k] = v
				}
			case "i":
				if t, _ := v.(string); t != "0" && t != "" {
					out[k] = "41"
				} else {
					out[k] = v
				}
			case "m":
				l, _ := v.([]any)
				nl := make([]any, len(l))
				for i, e := range l {
					kv, ok := e.([]any)
					if ok && len(kv) == 2 {
						nl[i] = []any{kv[0], c18Perturb(kv[1])}
					} else {
						nl[i] = e
					}
				}
				out[k] = nl
			case "a":
				a, ok := v.([]any)
				if ok && len(a) == 2 {
					out[k] = []any{a[0], c18Perturb(a[1])}
				} else {
					out[k] = v
				}
			default:
				out[k] = c18Perturb(v)
			}
		}
		return out
	case []any:
		out := make([]any, len(x))
		for i, v := range x {
			out[i] = c18Perturb(v)
		}
		return out
	}
	return d
}

// c18Norm: a dump with every empty slice / map replaced by nil (comparison up to nil-versus-empty).
func c18Norm(d any) any {
	switch x := d.(type) {
	case map[string]any:
		if l, ok := x["l"].([]any); ok && len(l) == 0 {
			return nil
		}
		if l, ok := x["m"].([]any); ok && len(l) == 0 {
			return nil
		}
		out := map[string]any{}
		for k, v := range x {
			out[k] = c18Norm(v)
		}
		return out
	case []any:
		out := make([]any, len(x))
		for i, v := range x {
			out[i] = c18Norm(v)
		}
		return out
	}
	return d
}

// c18Plain turns a dump (built from Go maps / slices by c18Dump) into the shape c18Build reads (what a JSON decoder
// would have produced: []any for pairs).
func c18Plain(d any) any {
	switch x := d.(type) {
	case map[string]any:
		out := map[string]any{}
		for k, v := range x {
			out[k] = c18Plain(v)
		}
		return out
	case []any:
		out := make([]any, len(x))
		for i, v := range x {
			out[i] = c18Plain(v)
		}
		return out
	}
	return d
}

// c18Eval evaluates a program under its own recover(): a panic of the evaluator is not this property's subject
// (evaluator totality is C07) and is reported as skip "evalpanic".
func c18Eval(c map[string]any) (env *esc.Environment, skip string) {
	defer func() {
		if r := recover(); r != nil {
			env, skip = nil, "evalpanic"
		}
	}()
	envs := c18Envs{}
	if m, ok := c["envs"].(map[string]any); ok {
		for k, v := range m {
			envs[k] = fmt.Sprint(v)
		}
	}
	decl, diags, err := eval.LoadYAMLBytes("main", []byte(str(c, "main")))
	if err != nil || diags.HasErrors() || decl == nil {
		return nil, "load"
	}
	ec, err := esc.NewExecContext(map[string]esc.Value{})
	if err != nil {
		return nil, "ctx"
	}
	if b, _ := c["check"].(bool); b {
		env, _ = eval.CheckEnvironment(context.Background(), "main", decl, nil, c18Providers{}, envs, ec, true)
	} else {
		env, _ = eval.EvalEnvironment(context.Background(), "main", decl, nil, c18Providers{}, envs, ec)
	}
	if env == nil {
		return nil, "nil"
	}
	return env, ""
}

type c18Provider struct{}

func (c18Provider) Schema() (*schema.Schema, *schema.Schema) { return schema.Always(), schema.Always() }
func (c18Provider) Open(ctx context.Context, inputs map[string]esc.Value, ec esc.EnvExecContext) (esc.Value, error) {
	return esc.NewValue(inputs), nil
}

type c18Providers struct{}

func (c18Providers) LoadProvider(ctx context.Context, name string) (esc.Provider, error) {
	if name == "echo" {
		return c18Provider{}, nil
	}
	return nil, fmt.Errorf("unknown provider %q", name)
}

type c18Envs map[string]string

func (e c18Envs) LoadEnvironment(ctx context.Context, name string) ([]byte, eval.Decrypter, error) {
	if s, ok := e[name]; ok {
		return []byte(s), nil, nil
	}
	return nil, nil, fmt.Errorf("unknown environment %q", name)
}

func c18(c map[string]any) (res map[string]any) {
	res = map[string]any{}
	defer func() {
		if r := recover(); r != nil {
			if b, ok := r.(c18Bad); ok {
				res = map[string]any{"badcase": b.msg}
				return
			}
			panic(r)
		}
	}()
	switch str(c, "op") {
	case "round":
		t, ok := c18Roots[str(c, "ty")]
		if !ok {
			c18fail("unknown type")
		}
		obj := reflect.New(t)
		obj.Elem().Set(c18Build(t, c["d"]))
		res["orig"] = map[string]any{"v": c18Dump(obj.Elem())}
		c18RoundTrip(obj, res)
	case "raw":
		t, ok := c18Roots[str(c, "ty")]
		if !ok {
			c18fail("unknown type")
		}
		back := reflect.New(t)
		if err := json.Unmarshal([]byte(str(c, "json")), back.Interface()); err != nil {
			res["rt"] = nil
			return res
		}
		rt := c18Dump(back.Elem())
		res["rt"] = map[string]any{"v": rt}
		if b2, err := json.Marshal(back.Interface()); err == nil {
			res["j2"] = string(b2)
		} else {
			res["j2"] = nil
		}
		// the same document once more into the object just decoded
		res["again"] = json.Unmarshal([]byte(str(c, "json")), back.Interface()) == nil && reflect.DeepEqual(c18Dump(back.Elem()), rt)
	case "eval", "evalonly":
		env, skip := c18Eval(c)
		if skip != "" {
			res["skip"] = skip
			return res
		}
		obj := reflect.ValueOf(env)
		res["orig"] = map[string]any{"v": c18Dump(obj.Elem())}
		if str(c, "op") == "eval" {
			c18RoundTrip(obj, res)
		}
	default:
		c18fail("bad op")
	}
	return res
}
