package main

// C20 — the API client addresses the right resource, once.
//
// One case is a group of independent items; an item is a call, or a SEQUENCE of calls issued one after the other on
// one client instance against one server (what a request carries must not depend on earlier requests).  Every call drives one method of the REAL client
// (client.New(...), default HTTP client and transport) against its own fault-injecting httptest server and
// reports a projection: the requests the server saw (method, raw request target, Authorization / ETag /
// If-Match request headers, string / number / boolean leaves of a JSON request body), the number of client.Do round trips
// (counted by a wrapper around http.DefaultTransport), and the class of the returned values / diagnostics /
// error.  The calls of a group run concurrently because the retry loop sleeps for real (1 s, 2 s, 4 s).

import (
	"bytes"
	"context"
	"encoding/hex"
	"encoding/json"
	"errors"
	"fmt"
	"io"
	"net/http"
	"net/http/httptest"
	"sort"
	"strconv"
	"strings"
	"sync"
	"time"

	"github.com/pulumi/esc/cmd/esc/cli/client"
	"github.com/pulumi/pulumi/sdk/v3/go/common/apitype"
)

func init() { register("C20", c20) }

// ---- round-trip counter -------------------------------------------------------------------------
type c20CountingRT struct {
	inner http.RoundTripper
	mu    sync.Mutex
	n     map[string]int
}

func (c *c20CountingRT) RoundTrip(r *http.Request) (*http.Response, error) {
	c.mu.Lock()
	c.n[r.URL.Host]++
	c.mu.Unlock()
	return c.inner.RoundTrip(r)
}

func (c *c20CountingRT) count(host string) int {
	c.mu.Lock()
	defer c.mu.Unlock()
	return c.n[host]
}

var (
	c20Once sync.Once
	c20RT   *c20CountingRT
)

func c20Install() {
	c20Once.Do(func() {
		c20RT = &c20CountingRT{inner: http.DefaultTransport, n: map[string]int{}}
		http.DefaultTransport = c20RT
	})
}

// ---- scripted server ----------------------------------------------------------------------------
type c20Reply struct {
	Kind   string `json:"k"` // "reset" | "resp"
	Status int    `json:"status"`
	Body   string `json:"body"`  // e (empty) | k (success body of the operation) | t (text) | j (error JSON)
	Code   *int   `json:"code"`  // j: "code" field (absent when nil)
	NDiag  int    `json:"ndiag"` // j: number of diagnostics
	ETag   string `json:"etag"`  // hex; response header ETag when non-empty
	Rev    *int   `json:"rev"`   // response header Pulumi-ESC-Revision when non-nil
}

type c20Req struct {
	M    string     `json:"m"`
	T    string     `json:"t"`
	Auth string     `json:"auth"`
	ETag string     `json:"etag"`
	IfM  string     `json:"ifm"`
	BF   [][]string `json:"bf"`
}

func c20hx(s string) string { return hex.EncodeToString([]byte(s)) }

func c20unhx(s string) string {
	b, _ := hex.DecodeString(s)
	return string(b)
}

var c20OkBody = map[string]string{
	"GetPulumiAccountDetails":       `{"githubLogin":"user1","organizations":[{"githubLogin":"org1"}]}`,
	"GetRevisionNumber":             `{"name":"t","revision":7}`,
	"ListEnvironments":              `{"environments":[{"organization":"o","project":"p","name":"e"}],"nextToken":"nt"}`,
	"OpenEnvironment":               `{"id":"sess1"}`,
	"OpenYAMLEnvironment":           `{"id":"sess1"}`,
	"CheckYAMLEnvironment":          `{}`,
	"GetOpenEnvironment":            `{}`,
	"GetOpenEnvironmentWithProject": `{}`,
	"GetAnonymousOpenEnvironment":   `{}`,
	"GetOpenProperty":               `{"value":"v"}`,
	"GetAnonymousOpenProperty":      `{"value":"v"}`,
	"ListEnvironmentTags":           `{"tags":{"k":{"name":"k","value":"v"}},"nextToken":""}`,
	"CreateEnvironmentTag":          `{"name":"k","value":"v"}`,
	"GetEnvironmentTag":             `{"name":"k","value":"v"}`,
	"UpdateEnvironmentTag":          `{"name":"k","value":"v"}`,
	"GetEnvironmentRevision":        `[{"number":3}]`,
	"ListEnvironmentRevisions":      `[{"number":3}]`,
	"GetEnvironmentRevisionTag":     `{"name":"t","revision":7}`,
	"ListEnvironmentRevisionTags":   `{"tags":[{"name":"t","revision":7}]}`,
}

func c20Flatten(prefix string, v any, out *[][]string) {
	switch x := v.(type) {
	case map[string]any:
		for k, e := range x {
			p := k
			if prefix != "" {
				p = prefix + "." + k
			}
			c20Flatten(p, e, out)
		}
	case string:
		*out = append(*out, []string{prefix, c20hx(x)})
	case json.Number:
		// number leaves (the revision a tag points to, a replacement revision): their decimal text
		*out = append(*out, []string{prefix, c20hx(x.String())})
	case bool:
		*out = append(*out, []string{prefix, c20hx(strconv.FormatBool(x))})
	}
}

func c20Body(op string, r c20Reply) string {
	switch r.Body {
	case "k":
		if b, ok := c20OkBody[op]; ok {
			return b
		}
		return "some yaml: 1\n"
	case "t":
		return "oops, not json"
	case "j":
		var sb strings.Builder
		sb.WriteString("{")
		if r.Code != nil {
			fmt.Fprintf(&sb, `"code":%d,`, *r.Code)
		}
		sb.WriteString(`"message":"m","diagnostics":[`)
		for i := 0; i < r.NDiag; i++ {
			if i > 0 {
				sb.WriteString(",")
			}
			fmt.Fprintf(&sb, `{"summary":"d%d"}`, i)
		}
		sb.WriteString("]}")
		return sb.String()
	}
	return ""
}

// c20Session is ONE client instance talking to ONE scripted server.  The operations of a sequence run on the same
// session one after the other (a single call is a sequence of length one); the script, the request log and the
// reply counter belong to the operation that is currently running.
type c20Session struct {
	srv  *httptest.Server
	cl   client.Client
	host string

	mu     sync.Mutex
	op     string
	script []c20Reply
	final  c20Reply
	reqs   []c20Req
	idx    int
}

func c20NewSession(token string) *c20Session {
	ss := &c20Session{}
	ss.srv = httptest.NewServer(http.HandlerFunc(func(w http.ResponseWriter, r *http.Request) {
		body, _ := io.ReadAll(r.Body)
		rq := c20Req{M: r.Method, T: c20hx(r.RequestURI), Auth: c20hx(r.Header.Get("Authorization")),
			ETag: c20hx(r.Header.Get("ETag")), IfM: c20hx(r.Header.Get("If-Match")), BF: [][]string{}}
		var v any
		dec := json.NewDecoder(bytes.NewReader(body))
		dec.UseNumber()
		if dec.Decode(&v) == nil {
			c20Flatten("", v, &rq.BF)
			sort.Slice(rq.BF, func(a, b int) bool { return rq.BF[a][0] < rq.BF[b][0] })
		}
		ss.mu.Lock()
		i := ss.idx
		ss.idx++
		ss.reqs = append(ss.reqs, rq)
		rp := ss.final
		if i < len(ss.script) {
			rp = ss.script[i]
		}
		op := ss.op
		ss.mu.Unlock()
		if rp.Kind == "reset" {
			if hj, ok := w.(http.Hijacker); ok {
				if conn, _, err := hj.Hijack(); err == nil {
					conn.Close()
					return
				}
			}
			panic(http.ErrAbortHandler)
		}
		if rp.ETag != "" {
			w.Header().Set("ETag", c20unhx(rp.ETag))
		}
		if rp.Rev != nil {
			w.Header().Set("Pulumi-ESC-Revision", strconv.Itoa(*rp.Rev))
		}
		b := c20Body(op, rp)
		w.Header().Set("Content-Length", strconv.Itoa(len(b)))
		w.WriteHeader(rp.Status)
		io.WriteString(w, b)
	}))
	ss.host = strings.TrimPrefix(ss.srv.URL, "http://")
	ss.cl = client.New("verif-agent", ss.srv.URL, token, false)
	return ss
}

// c20RunItem runs a single call ({"op":...}) or a sequence ({"seq":[call,...]}, all on one client instance whose
// token is that of the first call).
func c20RunItem(c map[string]any) map[string]any {
	seq, isSeq := c["seq"].([]any)
	if !isSeq {
		ss := c20NewSession(c20unhx(str(c, "token")))
		defer ss.srv.Close()
		return c20Call(ss, c)
	}
	out := make([]map[string]any, len(seq))
	var ss *c20Session
	for i, e := range seq {
		cm, _ := e.(map[string]any)
		if ss == nil {
			ss = c20NewSession(c20unhx(str(cm, "token")))
			defer ss.srv.Close()
		}
		out[i] = c20Call(ss, cm)
	}
	return map[string]any{"seq": out}
}

func c20Call(ss *c20Session, c map[string]any) (res map[string]any) {
	defer func() {
		if r := recover(); r != nil {
			res = map[string]any{"panic": fmt.Sprint(r)}
		}
	}()
	op := str(c, "op")
	var s []string
	if l, ok := c["s"].([]any); ok {
		for _, e := range l {
			h, _ := e.(string)
			s = append(s, c20unhx(h))
		}
	}
	var n []*int
	if l, ok := c["n"].([]any); ok {
		for _, e := range l {
			if e == nil {
				n = append(n, nil)
				continue
			}
			var v int
			switch x := e.(type) {
			case json.Number:
				i, _ := x.Int64()
				v = int(i)
			case float64:
				v = int(x)
			}
			n = append(n, &v)
		}
	}
	S := func(i int) string {
		if i < len(s) {
			return s[i]
		}
		return ""
	}
	NP := func(i int) *int {
		if i < len(n) {
			return n[i]
		}
		return nil
	}
	NI := func(i int) int {
		if p := NP(i); p != nil {
			return *p
		}
		return 0
	}
	var script []c20Reply
	var final c20Reply
	js, _ := json.Marshal(c["script"])
	_ = json.Unmarshal(js, &script)
	js, _ = json.Marshal(c["final"])
	_ = json.Unmarshal(js, &final)

	ss.mu.Lock()
	ss.op, ss.script, ss.final, ss.reqs, ss.idx = op, script, final, nil, 0
	ss.mu.Unlock()
	srv, cl, host := ss.srv, ss.cl, ss.host
	attBefore := c20RT.count(host)
	ctx := context.Background()
	yaml := []byte("values:\n  a: 1\n") // not JSON: the body of an update is opaque to the request projection

	var vals []string
	var diags []client.EnvironmentDiagnostic
	var err error
	hasDiags := false
	switch op {
	case "Insecure":
		vals = []string{strconv.FormatBool(cl.Insecure())}
	case "URL":
		vals = []string{strconv.FormatBool(cl.URL() == srv.URL)}
	case "GetPulumiAccountDetails":
		var u string
		var orgs []string
		u, orgs, _, err = cl.GetPulumiAccountDetails(ctx)
		_, _ = u, orgs
	case "GetRevisionNumber":
		var r int
		r, err = cl.GetRevisionNumber(ctx, S(0), S(1), S(2), S(3))
		if c20RT.count(host) == attBefore {
			// answered locally (the version is a revision number): project the number
			vals = []string{strconv.Itoa(r)}
		}
	case "ListEnvironments":
		var next string
		var envs []client.OrgEnvironment
		envs, next, err = cl.ListEnvironments(ctx, S(0), S(1))
		_, _ = envs, next
	case "CreateEnvironment":
		err = cl.CreateEnvironment(ctx, S(0), S(1))
	case "CreateEnvironmentWithProject":
		err = cl.CreateEnvironmentWithProject(ctx, S(0), S(1), S(2))
	case "CloneEnvironment":
		err = cl.CloneEnvironment(ctx, S(0), S(1), S(2), client.CloneEnvironmentRequest{Project: S(3), Name: S(4),
			PreserveHistory: NI(0) != 0})
	case "GetEnvironment":
		var tag string
		var rev int
		var y []byte
		y, tag, rev, err = cl.GetEnvironment(ctx, S(0), S(1), S(2), S(3), NI(0) != 0)
		_ = y
		vals = []string{tag, strconv.Itoa(rev)}
	case "UpdateEnvironmentWithRevision":
		var rev int
		diags, rev, err = cl.UpdateEnvironmentWithRevision(ctx, S(0), S(1), S(2), yaml, S(3))
		vals = []string{strconv.Itoa(rev)}
		hasDiags = true
	case "UpdateEnvironment":
		diags, err = cl.UpdateEnvironment(ctx, S(0), S(1), yaml, S(2))
		hasDiags = true
	case "UpdateEnvironmentWithProject":
		diags, err = cl.UpdateEnvironmentWithProject(ctx, S(0), S(1), S(2), yaml, S(3))
		hasDiags = true
	case "DeleteEnvironment":
		err = cl.DeleteEnvironment(ctx, S(0), S(1), S(2))
	case "OpenEnvironment":
		var id string
		id, diags, err = cl.OpenEnvironment(ctx, S(0), S(1), S(2), S(3), time.Duration(NI(0))*time.Second)
		_ = id
		hasDiags = true
	case "CheckYAMLEnvironment":
		if NP(0) == nil {
			_, diags, err = cl.CheckYAMLEnvironment(ctx, S(0), yaml)
		} else {
			_, diags, err = cl.CheckYAMLEnvironment(ctx, S(0), yaml, client.CheckYAMLOption{ShowSecrets: NI(0) != 0})
		}
		hasDiags = true
	case "OpenYAMLEnvironment":
		var id string
		id, diags, err = cl.OpenYAMLEnvironment(ctx, S(0), yaml, time.Duration(NI(0))*time.Second)
		_ = id
		hasDiags = true
	case "GetOpenEnvironment":
		_, err = cl.GetOpenEnvironment(ctx, S(0), S(1), S(2))
	case "GetOpenEnvironmentWithProject":
		_, err = cl.GetOpenEnvironmentWithProject(ctx, S(0), S(1), S(2), S(3))
	case "GetAnonymousOpenEnvironment":
		_, err = cl.GetAnonymousOpenEnvironment(ctx, S(0), S(1))
	case "GetOpenProperty":
		_, err = cl.GetOpenProperty(ctx, S(0), S(1), S(2), S(3), S(4))
	case "GetAnonymousOpenProperty":
		_, err = cl.GetAnonymousOpenProperty(ctx, S(0), S(1), S(2))
	case "ListEnvironmentTags":
		_, _, err = cl.ListEnvironmentTags(ctx, S(0), S(1), S(2), client.ListEnvironmentTagsOptions{After: S(3), Count: NP(0)})
	case "CreateEnvironmentTag":
		_, err = cl.CreateEnvironmentTag(ctx, S(0), S(1), S(2), S(3), S(4))
	case "GetEnvironmentTag":
		_, err = cl.GetEnvironmentTag(ctx, S(0), S(1), S(2), S(3))
	case "UpdateEnvironmentTag":
		_, err = cl.UpdateEnvironmentTag(ctx, S(0), S(1), S(2), S(3), S(4), S(5), S(6))
	case "DeleteEnvironmentTag":
		err = cl.DeleteEnvironmentTag(ctx, S(0), S(1), S(2), S(3))
	case "GetEnvironmentRevision":
		_, err = cl.GetEnvironmentRevision(ctx, S(0), S(1), S(2), NI(0))
	case "ListEnvironmentRevisions":
		_, err = cl.ListEnvironmentRevisions(ctx, S(0), S(1), S(2), client.ListEnvironmentRevisionsOptions{Before: NP(0), Count: NP(1)})
	case "RetractEnvironmentRevision":
		err = cl.RetractEnvironmentRevision(ctx, S(0), S(1), S(2), S(3), NP(0), S(4))
	case "CreateEnvironmentRevisionTag":
		err = cl.CreateEnvironmentRevisionTag(ctx, S(0), S(1), S(2), S(3), NP(0))
	case "GetEnvironmentRevisionTag":
		_, err = cl.GetEnvironmentRevisionTag(ctx, S(0), S(1), S(2), S(3))
	case "UpdateEnvironmentRevisionTag":
		err = cl.UpdateEnvironmentRevisionTag(ctx, S(0), S(1), S(2), S(3), NP(0))
	case "DeleteEnvironmentRevisionTag":
		err = cl.DeleteEnvironmentRevisionTag(ctx, S(0), S(1), S(2), S(3))
	case "ListEnvironmentRevisionTags":
		_, err = cl.ListEnvironmentRevisionTags(ctx, S(0), S(1), S(2), client.ListEnvironmentRevisionTagsOptions{After: S(3), Count: NP(0)})
	case "EnvironmentExists":
		var ok bool
		ok, err = cl.EnvironmentExists(ctx, S(0), S(1), S(2))
		vals = []string{strconv.FormatBool(ok)}
	default:
		return map[string]any{"res": map[string]any{"k": "badop"}}
	}

	var r map[string]any
	switch {
	case err != nil:
		r = c20ErrClass(err)
	case hasDiags && len(diags) != 0:
		r = map[string]any{"k": "diags", "n": len(diags)}
	default:
		hv := make([]string, len(vals))
		for i, v := range vals {
			hv[i] = c20hx(v)
		}
		r = map[string]any{"k": "ok", "v": hv}
	}
	ss.mu.Lock()
	out := ss.reqs
	if out == nil {
		out = []c20Req{}
	}
	ss.mu.Unlock()
	return map[string]any{"reqs": out, "att": c20RT.count(host) - attBefore, "res": r}
}

func c20ErrClass(err error) map[string]any {
	var ee *client.EnvironmentErrorResponse
	var ae *apitype.ErrorResponse
	msg := err.Error()
	switch {
	case errors.As(err, &ee):
		return map[string]any{"k": "err", "c": "enverr", "code": ee.Code}
	case errors.As(err, &ae):
		return map[string]any{"k": "err", "c": "http", "code": ae.Code}
	case strings.Contains(msg, "request rate-limit exceeded"):
		return map[string]any{"k": "err", "c": "ratelimit", "code": 0}
	case strings.Contains(msg, "requires logging in"):
		return map[string]any{"k": "err", "c": "login", "code": 0}
	case strings.Contains(msg, "creating new HTTP request"), strings.Contains(msg, "invalid request path"):
		return map[string]any{"k": "err", "c": "badreq", "code": 0}
	case strings.Contains(msg, "performing HTTP request"):
		return map[string]any{"k": "err", "c": "transport", "code": 0}
	case strings.Contains(msg, "parsing revision number"):
		return map[string]any{"k": "err", "c": "parse", "code": 0}
	case strings.Contains(msg, "unmarshalling response object"):
		return map[string]any{"k": "err", "c": "unmarshal", "code": 0}
	case strings.Contains(msg, "invalid revision number"):
		return map[string]any{"k": "err", "c": "invalid", "code": 0}
	case strings.Contains(msg, "unexpected response from server"):
		return map[string]any{"k": "err", "c": "unexpected", "code": 0}
	}
	return map[string]any{"k": "err", "c": "other", "code": 0, "text": msg}
}

func c20(c map[string]any) map[string]any {
	c20Install()
	calls, _ := c["calls"].([]any)
	out := make([]map[string]any, len(calls))
	var wg sync.WaitGroup
	for i, e := range calls {
		cm, _ := e.(map[string]any)
		wg.Add(1)
		go func(i int, cm map[string]any) {
			defer wg.Done()
			out[i] = c20RunItem(cm)
		}(i, cm)
	}
	wg.Wait()
	return map[string]any{"calls": out}
}
