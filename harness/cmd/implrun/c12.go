package main

import (
	"bytes"
	"context"
	"encoding/hex"
	"fmt"
	"strings"

	"github.com/pulumi/esc/eval"
	"gopkg.in/yaml.v3"
)

func init() { register("C12", c12) }

// the one diagnostic the known finding C12-interp is about (ast/expr.go parseSecret); it is only ever mapped to a
// class ("secret" / "other"), the text itself never reaches the model
const c12SecretLiteralDiag = "secret values must be string literals"

// c12NewDiagsSplit: the diagnostics of `out` not matched (as a multiset) by diagnostics of `in`, split into the
// class of C12-interp and everything else.
func c12NewDiagsSplit(in, out []string) (secret, other int) {
	have := map[string]int{}
	for _, d := range in {
		have[d]++
	}
	for _, d := range out {
		if have[d] > 0 {
			have[d]--
		} else if strings.HasSuffix(d, ":"+c12SecretLiteralDiag) {
			secret++
		} else {
			other++
		}
	}
	return
}

// c12Rewrite runs the real rewrite under its own recover(), so that a run-time panic of EncryptSecrets /
// DecryptSecrets is an observation of the case (the input tree stays available), not a lost case.
func c12Rewrite(op string, src []byte, ciph cyToyCipher) (out []byte, err error, panicked string) {
	defer func() {
		if r := recover(); r != nil {
			panicked = fmt.Sprint(r)
		}
	}()
	switch op {
	case "enc":
		out, err = eval.EncryptSecrets(context.Background(), "doc", src, ciph)
	case "dec":
		out, err = eval.DecryptSecrets(context.Background(), "doc", src, ciph)
	}
	return
}

// c12YamlAlone: the control run.  yaml.v3 alone - no esc code - parses the text, writes the node tree back with the
// encoder settings eval/crypt.go uses (indent 2) and parses that again; the projection of that tree tells which
// comments of this particular document yaml.v3 itself gives back.  nil when yaml.v3 cannot do it.
func c12YamlAlone(src []byte) (tree any) {
	defer func() {
		if r := recover(); r != nil {
			tree = nil
		}
	}()
	var doc yaml.Node
	if err := yaml.Unmarshal(src, &doc); err != nil {
		return nil
	}
	var b bytes.Buffer
	enc := yaml.NewEncoder(&b)
	enc.SetIndent(2)
	if err := enc.Encode(&doc); err != nil {
		return nil
	}
	if err := enc.Close(); err != nil {
		return nil
	}
	t, e := cyYamlTree(b.Bytes())
	if e != "" {
		return nil
	}
	return t
}

// C12: run the real eval.EncryptSecrets / eval.DecryptSecrets on a YAML text and report the yaml.v3 node tree of
// the input and of the output, the number of load diagnostics of the input (eval.LoadYAMLBytes), whether the output
// loads without new diagnostics, and the output text.
// op "tree": only the yaml.v3 node tree and the load diagnostics of the text (used by the driver side to describe a
// case whose rewrite killed the process).
func c12(c map[string]any) map[string]any {
	src, _ := hex.DecodeString(str(c, "src"))
	ciph := cyToyCipher{key: byte(cyNum(c, "key")), pad: cyNum(c, "pad")}
	res := map[string]any{}
	in, e := cyYamlTree(src)
	if e != "" {
		res["in_err"] = e
		return res
	}
	res["in"] = in
	if ctl := c12YamlAlone(src); ctl != nil {
		res["ctl"] = ctl
	}
	din, _, _ := cyLoadDiags(src)
	res["in_diags"] = len(din)
	op := str(c, "op")
	if op == "tree" {
		res["res"] = "tree"
		return res
	}
	if op != "enc" && op != "dec" {
		res["res"] = "badop"
		return res
	}
	out, err, panicked := c12Rewrite(op, src, ciph)
	if panicked != "" {
		res["res"] = "panic"
		res["panic_in_rewrite"] = panicked
		return res
	}
	res["res"] = cyErrClass(err)
	if err != nil {
		return res
	}
	res["out_text"] = hex.EncodeToString(out)
	ot, e := cyYamlTree(out)
	if e != "" {
		res["out_err"] = e
		return res
	}
	res["out"] = ot
	dout, _, _ := cyLoadDiags(out)
	ns, no := c12NewDiagsSplit(din, dout)
	res["new_diags"] = ns + no
	res["new_secret_diags"] = ns
	res["new_other_diags"] = no
	return res
}
