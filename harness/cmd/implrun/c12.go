package main

import (
	"context"
	"encoding/hex"

	"github.com/pulumi/esc/eval"
)

func init() { register("C12", c12) }

// C12: run the real eval.EncryptSecrets / eval.DecryptSecrets on a YAML text and report the yaml.v3 node tree of
// the input and of the output, whether the output loads (eval.LoadYAMLBytes) without new diagnostics, and the
// output text.
func c12(c map[string]any) map[string]any {
	src, _ := hex.DecodeString(str(c, "src"))
	ciph := cyToyCipher{key: byte(cyNum(c, "key")), pad: cyNum(c, "pad")}
	res := map[string]any{}
	in, e := cyYamlTree(src)
	if e != "" {
		res["in_err"] = e
		return res
	}
	res["in"] = in
	var out []byte
	var err error
	switch str(c, "op") {
	case "enc":
		out, err = eval.EncryptSecrets(context.Background(), "doc", src, ciph)
	case "dec":
		out, err = eval.DecryptSecrets(context.Background(), "doc", src, ciph)
	default:
		res["res"] = "badop"
		return res
	}
	res["res"] = cyErrClass(err)
	if err != nil {
		return res
	}
	res["out_text"] = hex.EncodeToString(out)
	ot, e := cyYamlTree(out)
	if e != "" {
		res["out_err"] = e
		return res
	}
	res["out"] = ot
	din, _, _ := cyLoadDiags(src)
	dout, _, _ := cyLoadDiags(out)
	res["new_diags"] = cyNewDiags(din, dout)
	res["in_diags"] = len(din)
	return res
}
