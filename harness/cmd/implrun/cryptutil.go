package main

// Helpers shared by the C12 and C04 handlers: a toy reversible cipher (identical to Corr/C12.v, Corr/C04.v),
// the projection of yaml.v3 node trees, of load diagnostics and of evaluation results.

import (
	"context"
	"encoding/hex"
	"encoding/json"
	"errors"
	"sort"
	"strings"

	"github.com/pulumi/esc"
	"github.com/pulumi/esc/eval"
	"github.com/pulumi/esc/schema"
	"github.com/pulumi/esc/syntax"
	"gopkg.in/yaml.v3"
)

// cyToyCipher: ciphertext = pad copies of the key byte, then every plaintext byte xor key.  Decrypt checks the
// prefix.  Ciphertext length = pad + len(plaintext), so lengths 0..3 arise from short texts with pad 0.
type cyToyCipher struct {
	key byte
	pad int
}

var cyErrToy = errors.New("toy cipher: bad prefix")

func (t cyToyCipher) Encrypt(_ context.Context, p []byte) ([]byte, error) {
	out := make([]byte, 0, t.pad+len(p))
	for i := 0; i < t.pad; i++ {
		out = append(out, t.key)
	}
	for _, b := range p {
		out = append(out, b^t.key)
	}
	return out, nil
}

func (t cyToyCipher) Decrypt(_ context.Context, c []byte) ([]byte, error) {
	if len(c) < t.pad {
		return nil, cyErrToy
	}
	for i := 0; i < t.pad; i++ {
		if c[i] != t.key {
			return nil, cyErrToy
		}
	}
	out := make([]byte, 0, len(c)-t.pad)
	for _, b := range c[t.pad:] {
		out = append(out, b^t.key)
	}
	return out, nil
}

func cyNum(c map[string]any, k string) int {
	switch v := c[k].(type) {
	case json.Number:
		n, _ := v.Int64()
		return int(n)
	case float64:
		return int(v)
	}
	return 0
}

func cyHex(s string) string { return hex.EncodeToString([]byte(s)) }

// cyYamlTree parses text with yaml.v3 and projects the root content node:
// [kind, tag(resolved short tag), style, value, head, line, foot, children...] with strings in hex.
func cyYamlTree(src []byte) (any, string) {
	var doc yaml.Node
	if err := yaml.Unmarshal(src, &doc); err != nil {
		return nil, "yamlerr"
	}
	if doc.Kind != yaml.DocumentNode || len(doc.Content) != 1 {
		return nil, "nodoc"
	}
	return cyProjNode(doc.Content[0]), ""
}

func cyProjNode(n *yaml.Node) any {
	kids := make([]any, 0, len(n.Content))
	for _, c := range n.Content {
		kids = append(kids, cyProjNode(c))
	}
	return []any{int(n.Kind), cyHex(n.ShortTag()), int(n.Style), cyHex(n.Value), cyHex(n.HeadComment), cyHex(n.LineComment),
		cyHex(n.FootComment), kids}
}

// cyLoadDiags: the multiset of (severity, summary) of eval.LoadYAMLBytes.
func cyLoadDiags(src []byte) (list []string, hasErr bool, crashed bool) {
	_, diags, err := eval.LoadYAMLBytes("doc", src)
	if err != nil {
		return []string{"err"}, true, false
	}
	for _, d := range diags {
		list = append(list, string(rune('0'+int(d.Severity)))+":"+d.Summary)
	}
	sort.Strings(list)
	return list, diags.HasErrors(), false
}

// cyNewDiags counts the diagnostics of `out` that are not matched (as a multiset) by diagnostics of `in`.
func cyNewDiags(in, out []string) int {
	have := map[string]int{}
	for _, d := range in {
		have[d]++
	}
	n := 0
	for _, d := range out {
		if have[d] > 0 {
			have[d]--
		} else {
			n++
		}
	}
	return n
}

func cyErrClass(err error) string {
	var diags syntax.Diagnostics
	switch {
	case err == nil:
		return "ok"
	case errors.Is(err, cyErrToy):
		return "crypter"
	case errors.As(err, &diags):
		return "diags"
	case strings.HasPrefix(err.Error(), "invalid ciphertext"):
		return "cipher"
	}
	return "other"
}

// echo provider: returns its inputs (secret flags preserved)
type cyEchoProvider struct{}

func (cyEchoProvider) Schema() (*schema.Schema, *schema.Schema) { return schema.Always(), schema.Always() }
func (cyEchoProvider) Open(_ context.Context, inputs map[string]esc.Value, _ esc.EnvExecContext) (esc.Value, error) {
	return esc.NewValue(inputs), nil
}

type cyEchoProviders struct{}

func (cyEchoProviders) LoadProvider(_ context.Context, name string) (esc.Provider, error) {
	return cyEchoProvider{}, nil
}

// cyProjValue: value tree with secret / unknown flags, no traces.
func cyProjValue(v esc.Value, leaves *[]string) any {
	var inner any
	switch x := v.Value.(type) {
	case nil:
		inner = nil
	case bool:
		inner = x
	case json.Number:
		inner = map[string]any{"n": x.String()}
	case string:
		inner = cyHex(x)
		if v.Secret {
			*leaves = append(*leaves, cyHex(x))
		}
	case []esc.Value:
		l := make([]any, len(x))
		for i, e := range x {
			l[i] = cyProjValue(e, leaves)
		}
		inner = l
	case map[string]esc.Value:
		m := map[string]any{}
		for k, e := range x {
			m[cyHex(k)] = cyProjValue(e, leaves)
		}
		inner = m
	default:
		inner = "?"
	}
	return map[string]any{"v": inner, "s": v.Secret, "u": v.Unknown}
}

// cyEvalDoc loads and evaluates a document; returns ("loaderr"|"ok", canonical JSON of the projected properties,
// sorted secret string leaves, number of evaluation diagnostics that are errors).
func cyEvalDoc(src []byte, dec eval.Decrypter) (status string, canon string, leaves []string, evalErrs int) {
	env, diags, err := eval.LoadYAMLBytes("doc", src)
	if err != nil || diags.HasErrors() || env == nil {
		return "loaderr", "", nil, 0
	}
	xc, err := esc.NewExecContext(map[string]esc.Value{})
	if err != nil {
		return "ctxerr", "", nil, 0
	}
	e, ediags := eval.EvalEnvironment(context.Background(), "doc", env, dec, cyEchoProviders{}, nil, xc)
	for _, d := range ediags {
		if d.Severity == 1 {
			evalErrs++
		}
	}
	if e == nil {
		return "nilenv", "", nil, evalErrs
	}
	props := map[string]any{}
	for k, v := range e.Properties {
		props[cyHex(k)] = cyProjValue(v, &leaves)
	}
	b, _ := json.Marshal(props) // encoding/json sorts map keys
	sort.Strings(leaves)
	return "ok", string(b), leaves, evalErrs
}
