package main

// Handler "PARSE": YAML text -> syntax tree -> ast.EnvironmentDecl.  Reports, as wire s-expressions,
//   syn: the tree encoding.DecodeYAMLBytes produced (the INPUT of the parser model: yaml.v3 stays outside the model),
//   ast: the *ast.EnvironmentDecl that ast.ParseEnvironment built from it (expression kinds, string values,
//        interpolation parts with accessors, the semantic fields of every builtin, import names and merge flags),
//   ndiags: the number of diagnostics of ParseEnvironment,
//   outside: some ObjectProperty.Key or OpenExpr.Provider is nil anywhere in the parsed tree (Args() included),
// and what eval.LoadYAMLBytes made of the same bytes (nil / not nil, number of diagnostics, same tree).
// Used by the C02 check to tie Model/Parse.v to the parser.  Never reports diagnostic texts or ranges.

import (
	"encoding/hex"
	"fmt"
	"strings"

	"github.com/hashicorp/hcl/v2"
	"github.com/pulumi/esc/ast"
	"github.com/pulumi/esc/eval"
	"github.com/pulumi/esc/syntax"
	"github.com/pulumi/esc/syntax/encoding"
)

func init() { register("PARSE", parseHandler) }

func wx(s string) string { return "x" + hex.EncodeToString([]byte(s)) }

func wb(b bool) string {
	if b {
		return "t"
	}
	return "f"
}

// ---- syntax tree ----
func wireSyn(n syntax.Node, sb *strings.Builder) bool {
	switch n := n.(type) {
	case *syntax.NullNode:
		sb.WriteString("null")
	case *syntax.BooleanNode:
		sb.WriteString("(b " + wb(n.Value()) + ")")
	case *syntax.NumberNode:
		sb.WriteString("(n " + wx(n.Value().String()) + ")")
	case *syntax.StringNode:
		sb.WriteString("(s " + wx(n.Value()) + ")")
	case *syntax.ArrayNode:
		sb.WriteString("(arr")
		for i := 0; i < n.Len(); i++ {
			sb.WriteString(" ")
			if !wireSyn(n.Index(i), sb) {
				return false
			}
		}
		sb.WriteString(")")
	case *syntax.ObjectNode:
		sb.WriteString("(obj")
		for i := 0; i < n.Len(); i++ {
			kvp := n.Index(i)
			if kvp.Key == nil {
				return false
			}
			sb.WriteString(" (" + wx(kvp.Key.Value()) + " ")
			if !wireSyn(kvp.Value, sb) {
				return false
			}
			sb.WriteString(")")
		}
		sb.WriteString(")")
	default:
		return false
	}
	return true
}

// ---- AST ----
func wirePath(p *ast.PropertyAccess, sb *strings.Builder) {
	sb.WriteString("(")
	for i, a := range p.Accessors {
		if i > 0 {
			sb.WriteString(" ")
		}
		switch a := a.(type) {
		case *ast.PropertyName:
			sb.WriteString("(name " + wx(a.Name) + ")")
		case *ast.PropertySubscript:
			switch ix := a.Index.(type) {
			case string:
				sb.WriteString("(key " + wx(ix) + ")")
			case int:
				sb.WriteString(fmt.Sprintf("(idx %d)", ix))
			default:
				sb.WriteString("(badsubscript)")
			}
		default:
			sb.WriteString("(badaccessor)")
		}
	}
	sb.WriteString(")")
}

type astDump struct {
	sb      strings.Builder
	outside bool
}

// scan visits the parts of the parse that the dump does not print (BuiltinExpr.Args()) for nil keys / providers
func (d *astDump) scan(x ast.Expr) {
	var sink astDump
	sink.expr(x)
	if sink.outside {
		d.outside = true
	}
}

func (d *astDump) unary(tag string, b ast.BuiltinExpr, x ast.Expr) {
	d.scan(b.Args())
	d.sb.WriteString("(" + tag + " ")
	d.expr(x)
	d.sb.WriteString(")")
}

func (d *astDump) expr(x ast.Expr) {
	sb := &d.sb
	switch x := x.(type) {
	case nil:
		sb.WriteString("missing")
	case *ast.NullExpr:
		if x == nil {
			sb.WriteString("missing")
			return
		}
		sb.WriteString("null")
	case *ast.BooleanExpr:
		sb.WriteString("(b " + wb(x.Value) + ")")
	case *ast.NumberExpr:
		sb.WriteString("(n " + wx(x.Value.String()) + ")")
	case *ast.StringExpr:
		if x == nil {
			sb.WriteString("missing")
			return
		}
		sb.WriteString("(s " + wx(x.Value) + ")")
	case *ast.InterpolateExpr:
		sb.WriteString("(interp")
		for _, p := range x.Parts {
			sb.WriteString(" (" + wx(p.Text) + " ")
			if p.Value == nil {
				sb.WriteString("none")
			} else {
				wirePath(p.Value, sb)
			}
			sb.WriteString(")")
		}
		sb.WriteString(")")
	case *ast.SymbolExpr:
		sb.WriteString("(sym ")
		wirePath(x.Property, sb)
		sb.WriteString(")")
	case *ast.ArrayExpr:
		sb.WriteString("(arr")
		for _, e := range x.Elements {
			sb.WriteString(" ")
			d.expr(e)
		}
		sb.WriteString(")")
	case *ast.ObjectExpr:
		sb.WriteString("(obj")
		node, _ := x.Syntax().(*syntax.ObjectNode)
		for i, kvp := range x.Entries {
			if kvp.Key == nil {
				// the key as written (the model's approximation of an entry without key)
				d.outside = true
				raw := ""
				if node != nil && i < node.Len() && node.Index(i).Key != nil {
					raw = node.Index(i).Key.Value()
				}
				sb.WriteString(" (nokey " + wx(raw) + " ")
			} else {
				sb.WriteString(" (" + wx(kvp.Key.Value) + " ")
			}
			d.expr(kvp.Value)
			sb.WriteString(")")
		}
		sb.WriteString(")")
	case *ast.JoinExpr:
		d.scan(x.Args())
		sb.WriteString("(join ")
		d.expr(x.Delimiter)
		sb.WriteString(" ")
		d.expr(x.Values)
		sb.WriteString(")")
	case *ast.ToJSONExpr:
		d.unary("tojson", x, x.Value)
	case *ast.FromJSONExpr:
		d.unary("fromjson", x, x.String)
	case *ast.ToStringExpr:
		d.unary("tostring", x, x.Value)
	case *ast.ToBase64Expr:
		d.unary("tob64", x, x.Value)
	case *ast.FromBase64Expr:
		d.unary("fromb64", x, x.String)
	case *ast.SecretExpr:
		d.scan(x.Args())
		switch {
		case x.Plaintext != nil:
			sb.WriteString("(secret " + wx(x.Plaintext.Value) + ")")
		case x.Ciphertext != nil:
			sb.WriteString("(cipher " + wx(x.Ciphertext.Value) + ")")
		default:
			sb.WriteString("(badsecret)")
		}
	case *ast.OpenExpr:
		d.scan(x.Args())
		if x.Provider == nil {
			d.outside = true
			sb.WriteString("(open none ")
		} else {
			sb.WriteString("(open " + wx(x.Provider.Value) + " ")
		}
		d.expr(x.Inputs)
		sb.WriteString(")")
	default:
		sb.WriteString(fmt.Sprintf("(unknownexpr %T)", x))
	}
}

// (env <description> (<import>...) (<value>...)); an import is (<name|none> <merge flag as evaluateImport computes it>)
func wireEnv(t *ast.EnvironmentDecl) (string, bool) {
	var d astDump
	sb := &d.sb
	sb.WriteString("(env ")
	if t.Description == nil {
		sb.WriteString("none")
	} else {
		sb.WriteString("(s " + wx(t.Description.Value) + ")")
	}
	sb.WriteString(" (")
	for i, imp := range t.Imports.GetElements() {
		if i > 0 {
			sb.WriteString(" ")
		}
		if imp == nil {
			sb.WriteString("(nilimport)")
			continue
		}
		merge := true
		if imp.Meta != nil && imp.Meta.Merge != nil {
			merge = imp.Meta.Merge.Value
		}
		if imp.Environment == nil {
			sb.WriteString("(none " + wb(merge) + ")")
		} else {
			sb.WriteString("(" + wx(imp.Environment.Value) + " " + wb(merge) + ")")
		}
	}
	sb.WriteString(") (")
	for i, e := range t.Values.GetEntries() {
		if i > 0 {
			sb.WriteString(" ")
		}
		if e.Key == nil {
			sb.WriteString("(nokey x ")
			d.outside = true
		} else {
			sb.WriteString("(" + wx(e.Key.Value) + " ")
		}
		d.expr(e.Value)
		sb.WriteString(")")
	}
	sb.WriteString("))")
	return sb.String(), d.outside
}

func parseHandler(c map[string]any) map[string]any {
	text, _ := hex.DecodeString(str(c, "text"))
	res := map[string]any{}

	syn, sdiags := encoding.DecodeYAMLBytes("env", text, eval.TagDecoder)
	res["decode_errors"] = sdiags.HasErrors()
	res["decode_ndiags"] = len(sdiags)

	decl, ldiags, lerr := eval.LoadYAMLBytes("env", text)
	res["load_nil"] = decl == nil
	res["load_ndiags"] = len(ldiags)
	res["load_err"] = lerr != nil

	if sdiags.HasErrors() {
		return res
	}
	var sb strings.Builder
	if syn == nil {
		res["syn"] = "nil"
	} else if wireSyn(syn, &sb) {
		res["syn"] = sb.String()
	} else {
		res["syn"] = "unprintable"
	}
	t, tdiags := ast.ParseEnvironment(text, syn)
	nerr := 0
	for _, d := range tdiags {
		if d.Severity == hcl.DiagError {
			nerr++
		}
	}
	res["ndiags"] = len(tdiags)
	res["nerrors"] = nerr
	res["has_errors"] = tdiags.HasErrors()
	w, outside := wireEnv(t)
	res["ast"] = w
	res["outside"] = outside
	if decl != nil {
		w2, _ := wireEnv(decl)
		res["load_same"] = w2 == w
	}
	return res
}
