package main

// Handler "C06S": the three-run request of C06 (multi: check, check+showSecrets, open) exactly as the EV handler
// answers it, plus what the schema clause of C06 needs:
//   for every run   "schema": json.Marshal(Environment.Schema) as text (the schema of the WHOLE environment as
//                   eval.CheckEnvironment / eval.EvalEnvironment return it; "" when there is no environment),
//                   "json":   json.Marshal(esc.NewValue(Environment.Properties).ToJSON(false)) as text, i.e. the plain
//                   JSON value with secrets SHOWN (unknown values print as the string "[unknown]"),
//                   "unknowns": does the exported value contain an unknown value anywhere.
// "errors" (error diagnostics) and "log" (collaborator calls) are the EV fields.  Nothing else is projected: no
// diagnostic texts, no traces.  The environment value is obtained through evRun (ev.go), the same entry point every
// evaluator-family check uses.

import (
	"context"
	"encoding/json"

	"github.com/pulumi/esc"
	"github.com/pulumi/esc/eval"
	"github.com/pulumi/esc/schema"
	"github.com/pulumi/esc/syntax"
)

func init() { register("C06S", c06sHandler) }

func c06sHasUnknown(v esc.Value) bool {
	if v.Unknown {
		return true
	}
	switch pv := v.Value.(type) {
	case []esc.Value:
		for _, e := range pv {
			if c06sHasUnknown(e) {
				return true
			}
		}
	case map[string]esc.Value:
		for _, e := range pv {
			if c06sHasUnknown(e) {
				return true
			}
		}
	}
	return false
}

// Providers whose declared output schema is arbitrary JSON Schema ({"t":"json","schema":{...}}, decoded with
// schema.Schema's own UnmarshalJSON as a provider's JSON schema would be): ev.go's schemaFrom only knows records, tuples and
// type names, so worlds that use the JSON form ("json_provs": true) are evaluated by c06sEval, which is evRun with the
// provider loader wrapped.  Everything else (environments, decrypter, call log, fault plan) is the evWorld of ev.go.
type c06sWorld struct{ *evWorld }

type c06sProvider struct {
	evProvider
	out *schema.Schema
}

func (p c06sProvider) Schema() (*schema.Schema, *schema.Schema) {
	in, _ := p.evProvider.Schema()
	return in, p.out
}

func (w c06sWorld) LoadProvider(ctx context.Context, name string) (esc.Provider, error) {
	p, err := w.evWorld.LoadProvider(ctx, name)
	if err != nil {
		return nil, err
	}
	ep, ok := p.(evProvider)
	if !ok {
		return p, nil
	}
	if m, ok := ep.spec["out"].(map[string]any); ok && m["t"] == "json" {
		sj, err := json.Marshal(m["schema"])
		if err != nil {
			return nil, err
		}
		var s schema.Schema
		if err := json.Unmarshal(sj, &s); err != nil {
			return nil, err
		}
		return c06sProvider{ep, &s}, nil
	}
	return p, nil
}

func c06sEval(c map[string]any) (map[string]any, *esc.Environment, syntax.Diagnostics) {
	w := &evWorld{envs: map[string]map[string]any{}, provs: map[string]map[string]any{}, fault: -1}
	if envs, ok := c["envs"].(map[string]any); ok {
		for k, v := range envs {
			w.envs[k] = v.(map[string]any)
		}
	}
	if provs, ok := c["provs"].(map[string]any); ok {
		for k, v := range provs {
			w.provs[k] = v.(map[string]any)
		}
	}
	name := str(c, "name")
	res := map[string]any{}
	env, ldiags, err := eval.LoadYAMLBytes(name, []byte(str(c, "text")))
	if err != nil || ldiags.HasErrors() {
		res["loaderr"] = true
		return res, nil, nil
	}
	execCtx, err := esc.NewExecContext(map[string]esc.Value{})
	if err != nil {
		res["loaderr"] = true
		return res, nil, nil
	}
	var out *esc.Environment
	var diags syntax.Diagnostics
	dec := evDecrypter{w, name}
	if c["check"] == true {
		out, diags = eval.CheckEnvironment(context.Background(), name, env, dec, c06sWorld{w}, w, execCtx, c["show"] == true)
	} else {
		out, diags = eval.EvalEnvironment(context.Background(), name, env, dec, c06sWorld{w}, w, execCtx)
	}
	res["errors"] = hasErrors(diags)
	res["log"] = w.log
	if out == nil {
		res["value"] = nil
	} else {
		res["value"] = valueTo(esc.NewValue(out.Properties))
	}
	return res, out, diags
}

func c06sRun(c map[string]any) map[string]any {
	var res map[string]any
	var out *esc.Environment
	if c["json_provs"] == true {
		res, out, _ = c06sEval(c)
	} else {
		res, out, _ = evRun(c, nil)
	}
	if out == nil {
		return res
	}
	if out.Schema != nil {
		if b, err := json.Marshal(out.Schema); err == nil {
			res["schema"] = string(b)
		} else {
			res["schema_error"] = true
		}
	}
	root := esc.NewValue(out.Properties)
	if b, err := json.Marshal(root.ToJSON(false)); err == nil {
		res["json"] = string(b)
	} else {
		res["json_error"] = true
	}
	res["unknowns"] = c06sHasUnknown(root)
	return res
}

func c06sHandler(c map[string]any) map[string]any {
	res := map[string]any{}
	multi, _ := c["multi"].([]any)
	outs := []any{}
	for _, ov := range multi {
		c2 := map[string]any{}
		for k, v := range c {
			c2[k] = v
		}
		delete(c2, "multi")
		for k, v := range ov.(map[string]any) {
			c2[k] = v
		}
		outs = append(outs, runOne(c06sRun, c2))
	}
	res["multi"] = outs
	return res
}
