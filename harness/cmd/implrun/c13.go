package main

import (
	"bytes"
	"encoding/hex"

	aho_corasick "github.com/petar-dambovaliev/aho-corasick"

	"github.com/pulumi/esc/cmd/esc/cli"
)

func init() { register("C13", c13) }

func c13HexList(c map[string]any, k string) [][]byte {
	l, _ := c[k].([]any)
	out := make([][]byte, 0, len(l))
	for _, x := range l {
		s, _ := x.(string)
		b, _ := hex.DecodeString(s)
		out = append(out, b)
	}
	return out
}

// guarded runs f and reports whether it panicked.
func c13Guarded(f func()) (panicked bool) {
	defer func() {
		if r := recover(); r != nil {
			panicked = true
		}
	}()
	f()
	return false
}

func c13(c map[string]any) map[string]any {
	switch str(c, "op") {
	case "run":
		// the real filter of `esc run` in front of a buffer: a scripted sequence of Write calls, then Close;
		// observable = the bytes that reached the buffer (a panic is caught by runOne and reported as such)
		var secrets []string
		for _, s := range c13HexList(c, "secrets") {
			secrets = append(secrets, string(s))
		}
		var sink bytes.Buffer
		w := cli.VerifC13NewRedactor(&sink, secrets)
		short := false
		for _, chunk := range c13HexList(c, "chunks") {
			n, err := w.Write(chunk)
			if err != nil || n != len(chunk) {
				short = true
			}
		}
		if err := w.Close(); err != nil {
			short = true
		}
		res := map[string]any{"out": hex.EncodeToString(sink.Bytes())}
		if short {
			res["short"] = true
		}
		return res
	case "lib":
		// the library alone (public API), exactly as esc configures it
		var pats []string
		for _, s := range c13HexList(c, "pats") {
			pats = append(pats, string(s))
		}
		text, _ := hex.DecodeString(str(c, "text"))
		builder := aho_corasick.NewAhoCorasickBuilder(aho_corasick.Opts{MatchKind: aho_corasick.StandardMatch})
		ac := builder.Build(pats)
		res := map[string]any{}
		var fa, ov [][2]int
		if c13Guarded(func() {
			for _, m := range ac.FindAll(string(text)) {
				fa = append(fa, [2]int{m.Start(), m.End() - m.Start()})
			}
		}) {
			res["findall_panic"] = true
		} else {
			res["findall"] = fa
		}
		if c13Guarded(func() {
			for it := ac.IterOverlapping(string(text)); ; {
				m := it.Next()
				if m == nil {
					break
				}
				ov = append(ov, [2]int{m.Start(), m.End() - m.Start()})
			}
		}) {
			res["overlapping_panic"] = true
		} else {
			res["overlapping"] = ov
		}
		ph, _ := hex.DecodeString(str(c, "placeholder"))
		var rep string
		if c13Guarded(func() {
			rep = aho_corasick.NewReplacer(ac).ReplaceAllFunc(string(text), func(aho_corasick.Match) (string, bool) {
				return string(ph), true
			})
		}) {
			res["replace_panic"] = true
		} else {
			res["replace"] = hex.EncodeToString([]byte(rep))
		}
		return res
	case "cmd":
		return c13Cmd(c)
	}
	return map[string]any{"res": "badop"}
}
