package main

// Handler "EV": runs eval.EvalEnvironment / eval.CheckEnvironment on a generated world (environments as YAML
// text, stub providers, per-environment decrypters, an optional fault position) and projects the result:
// the exported value tree with secret/unknown flags, "has error diagnostics", the collaborator call log, and
// (on request) redacted renderings, the JSON of the whole Environment, and repeated-run comparisons.

import (
	"context"
	"crypto/sha256"
	"encoding/hex"
	"encoding/json"
	"errors"
	"fmt"
	"sort"
	"strings"

	"github.com/hashicorp/hcl/v2"
	"github.com/pulumi/esc"
	"github.com/pulumi/esc/cmd/esc/cli"
	"github.com/pulumi/esc/eval"
	"github.com/pulumi/esc/schema"
	"github.com/pulumi/esc/syntax"
)

func init() { register("EV", evHandler) }

type evWorld struct {
	envs    map[string]map[string]any
	provs   map[string]map[string]any
	fault   int
	calls   int
	log     []any
	secrets map[string]string // substitution of secret payloads for the two-run oracle
}

func (w *evWorld) call() bool {
	k := w.calls
	w.calls++
	return w.fault >= 0 && k == w.fault
}

type evDecrypter struct {
	w   *evWorld
	env string
}

func (d evDecrypter) Decrypt(ctx context.Context, ct []byte) ([]byte, error) {
	failed := d.w.call()
	d.w.log = append(d.w.log, []any{"decrypt", d.env, hex.EncodeToString(ct)})
	if failed || strings.HasPrefix(string(ct), "!") {
		return nil, errors.New("decrypt failed")
	}
	if s, ok := d.w.secrets[string(ct)]; ok {
		return []byte(s), nil
	}
	return []byte("<" + d.env + ":" + string(ct) + ">"), nil
}

func (w *evWorld) LoadEnvironment(ctx context.Context, name string) ([]byte, eval.Decrypter, error) {
	failed := w.call()
	w.log = append(w.log, []any{"load", name})
	e, ok := w.envs[name]
	if failed || !ok || e["kind"] == "fail" {
		return nil, nil, fmt.Errorf("environment %q not found", name)
	}
	text := e["text"].(string)
	for k, v := range w.secrets {
		text = strings.ReplaceAll(text, k, v)
	}
	return []byte(text), evDecrypter{w, name}, nil
}

type evProvider struct {
	w    *evWorld
	name string
	spec map[string]any
}

// Providers are long-lived: a real provider builds its schemas once (package-level variables, one *schema.Schema
// object reused for several properties) and hands the SAME objects to every evaluation.  schemaFrom therefore interns:
// equal specifications yield the identical object, within one schema and across evaluations in this process.
var evSchemaIntern = map[string]*schema.Schema{}

func schemaFrom(v any) *schema.Schema {
	key, err := json.Marshal(v)
	if err == nil {
		if s, ok := evSchemaIntern[string(key)]; ok {
			return s
		}
	}
	s := schemaBuild(v)
	if err == nil {
		evSchemaIntern[string(key)] = s
	}
	return s
}

func schemaBuild(v any) *schema.Schema {
	switch s := v.(type) {
	case string:
		switch s {
		case "always":
			return schema.Always()
		case "never":
			return schema.Never()
		case "null":
			return schema.Null().Schema()
		case "boolean":
			return schema.Boolean().Schema()
		case "number":
			return schema.Number().Schema()
		case "string":
			return schema.String().Schema()
		case "array":
			return schema.Array().Schema()
		case "object":
			return schema.Object().Schema()
		}
	case map[string]any:
		switch s["t"] {
		case "array":
			var prefix []schema.Builder
			for _, p := range s["prefix"].([]any) {
				prefix = append(prefix, schemaFrom(p))
			}
			b := schema.Array().PrefixItems(prefix...)
			if it, ok := s["items"]; ok && it != nil {
				b = b.Items(schemaFrom(it))
			}
			return b.Schema()
		case "object":
			props := schema.SchemaMap{}
			for k, p := range s["props"].(map[string]any) {
				props[k] = schemaFrom(p)
			}
			b := schema.Object().Properties(props)
			if req, ok := s["required"].([]any); ok {
				names := []string{}
				for _, r := range req {
					names = append(names, r.(string))
				}
				b = b.Required(names...)
			}
			if ad, ok := s["addl"]; ok && ad != nil {
				b = b.AdditionalProperties(schemaFrom(ad))
			}
			if dr, ok := s["depreq"].(map[string]any); ok {
				m := map[string][]string{}
				for k, v := range dr {
					for _, x := range v.([]any) {
						m[k] = append(m[k], x.(string))
					}
				}
				b = b.DependentRequired(m)
			}
			return b.Schema()
		}
	}
	return schema.Always()
}

func (p evProvider) Schema() (*schema.Schema, *schema.Schema) {
	return schemaFrom(p.spec["in"]), schemaFrom(p.spec["out"])
}

// value trees travel as {"s":secret,"u":unknown,"v":<null|bool|{"n":text}|string|[...]|{"o":{...}}>}
func valueFrom(v any, w *evWorld) esc.Value { return valueFromIn(v, w, false) }

// inSecret: the value lies inside a composite flagged secret, so its payload is secret too
func valueFromIn(v any, w *evWorld, inSecret bool) esc.Value {
	m := v.(map[string]any)
	out := esc.Value{Secret: m["s"] == true, Unknown: m["u"] == true}
	inSecret = inSecret || out.Secret
	switch x := m["v"].(type) {
	case nil:
		out.Value = nil
	case bool:
		out.Value = x
	case string:
		if w != nil && inSecret {
			if s, ok := w.secrets[x]; ok {
				x = s
			}
		}
		out.Value = x
	case []any:
		a := make([]esc.Value, len(x))
		for i, e := range x {
			a[i] = valueFromIn(e, w, inSecret)
		}
		out.Value = a
	case map[string]any:
		if n, ok := x["n"]; ok {
			out.Value = json.Number(n.(string))
		} else {
			o := map[string]esc.Value{}
			for k, e := range x["o"].(map[string]any) {
				o[k] = valueFromIn(e, w, inSecret)
			}
			out.Value = o
		}
	}
	return out
}

func valueTo(v esc.Value) any {
	var x any
	switch pv := v.Value.(type) {
	case nil:
		x = nil
	case bool:
		x = pv
	case json.Number:
		x = map[string]any{"n": pv.String()}
	case string:
		x = map[string]any{"h": hex.EncodeToString([]byte(pv))}
	case []esc.Value:
		a := make([]any, len(pv))
		for i, e := range pv {
			a[i] = valueTo(e)
		}
		x = a
	case map[string]esc.Value:
		o := map[string]any{}
		for k, e := range pv {
			o[hex.EncodeToString([]byte(k))] = valueTo(e)
		}
		x = map[string]any{"o": o}
	default:
		x = map[string]any{"bad": fmt.Sprintf("%T", pv)}
	}
	return map[string]any{"s": v.Secret, "u": v.Unknown, "v": x}
}

func (p evProvider) Open(ctx context.Context, inputs map[string]esc.Value, ec esc.EnvExecContext) (esc.Value, error) {
	failed := p.w.call()
	p.w.log = append(p.w.log, []any{"open", p.name, valueTo(esc.NewValue(inputs)), ec.GetRootEnvironmentName(), ec.GetCurrentEnvironmentName()})
	if failed {
		return esc.Value{}, errors.New("open failed")
	}
	switch p.spec["beh"] {
	case "echo":
		return esc.NewValue(inputs), nil
	case "const":
		return valueFrom(p.spec["const"], p.w), nil
	}
	return esc.Value{}, errors.New("provider failure")
}

func (w *evWorld) LoadProvider(ctx context.Context, name string) (esc.Provider, error) {
	failed := w.call()
	w.log = append(w.log, []any{"loadprovider", name})
	spec, ok := w.provs[name]
	if failed || !ok {
		return nil, fmt.Errorf("unknown provider %q", name)
	}
	return evProvider{w, name, spec}, nil
}

func hasErrors(d syntax.Diagnostics) bool { return d.HasErrors() }

func diagTexts(d syntax.Diagnostics) []string {
	out := []string{}
	for _, x := range d {
		s := x.Summary
		if x.Subject != nil {
			s = fmt.Sprintf("%s:%d:%d-%d:%d %s", x.Subject.Filename, x.Subject.Start.Line, x.Subject.Start.Column, x.Subject.End.Line, x.Subject.End.Column, s)
		}
		out = append(out, s)
	}
	return out
}

// evSharedExecCtx, when set, replaces the fresh ExecContext of evRun: the caller-held collaborator is then the SAME
// object for a sequence of evaluations, as in a long-running service.
var evSharedExecCtx *esc.ExecContext

func evRun(c map[string]any, secrets map[string]string) (map[string]any, *esc.Environment, syntax.Diagnostics) {
	w := &evWorld{envs: map[string]map[string]any{}, provs: map[string]map[string]any{}, fault: -1, secrets: secrets}
	if envs, ok := c["envs"].(map[string]any); ok {
		for k, v := range envs {
			w.envs[k] = v.(map[string]any)
		}
	}
	if provs, ok := c["provs"].(map[string]any); ok {
		for k, v := range provs {
			w.provs[k] = v.(map[string]any)
		}
	}
	if f, ok := c["fault"].(json.Number); ok {
		n, _ := f.Int64()
		w.fault = int(n)
	}
	name := str(c, "name")
	text := str(c, "text")
	if secrets != nil {
		for k, v := range secrets {
			text = strings.ReplaceAll(text, k, v)
		}
	}
	res := map[string]any{}
	env, ldiags, err := eval.LoadYAMLBytes(name, []byte(text))
	if err != nil || ldiags.HasErrors() {
		res["loaderr"] = true
		res["loaddiags"] = diagTexts(ldiags)
		return res, nil, nil
	}
	ctxVals := map[string]esc.Value{}
	if cv, ok := c["ctx"].(map[string]any); ok {
		for k, v := range cv {
			ctxVals[k] = valueFrom(v, nil)
		}
	}
	execCtx, err := esc.NewExecContext(ctxVals)
	if err != nil {
		res["loaderr"] = true
		return res, nil, nil
	}
	if evSharedExecCtx != nil {
		execCtx = evSharedExecCtx // one caller-held context serving several evaluations (history runs)
	}
	var out *esc.Environment
	var diags syntax.Diagnostics
	dec := evDecrypter{w, name}
	if c["check"] == true {
		out, diags = eval.CheckEnvironment(context.Background(), name, env, dec, w, w, execCtx, c["show"] == true)
	} else {
		out, diags = eval.EvalEnvironment(context.Background(), name, env, dec, w, w, execCtx)
	}
	res["errors"] = hasErrors(diags)
	nerr := 0
	for _, d := range diags {
		if d.Severity == hcl.DiagError {
			nerr++
		}
	}
	res["nerr"] = nerr
	res["log"] = w.log
	if out == nil {
		res["value"] = nil
	} else {
		res["value"] = valueTo(esc.NewValue(out.Properties))
	}
	return res, out, diags
}

func evHandler(c map[string]any) map[string]any {
	res, out, diags := evRun(c, nil)
	if res["loaderr"] == true {
		return res
	}
	// additional roots: evaluate other environments of the same world on their own
	if also, ok := c["also"].([]any); ok {
		m := map[string]any{}
		for _, n := range also {
			name := n.(string)
			c2 := map[string]any{}
			for k, v := range c {
				c2[k] = v
			}
			delete(c2, "also")
			c2["name"] = name
			if e, ok := c["envs"].(map[string]any)[name].(map[string]any); ok && e["kind"] == "yaml" {
				c2["text"] = e["text"]
				r2 := runOne(func(cc map[string]any) map[string]any { r, _, _ := evRun(cc, nil); return r }, c2)
				m[name] = r2
			}
		}
		res["also"] = m
	}
	if multi, ok := c["multi"].([]any); ok {
		outs := []any{}
		for _, ov := range multi {
			c2 := map[string]any{}
			for k, v := range c {
				c2[k] = v
			}
			delete(c2, "multi")
			for k, v := range ov.(map[string]any) {
				c2[k] = v
			}
			outs = append(outs, runOne(func(cc map[string]any) map[string]any { r, _, _ := evRun(cc, nil); return r }, c2))
		}
		res["multi"] = outs
	}
	if t2, ok := c["text2"].(string); ok {
		c2 := map[string]any{}
		for k, v := range c {
			c2[k] = v
		}
		delete(c2, "text2")
		delete(c2, "also")
		c2["text"] = t2
		res["obs2"] = runOne(func(cc map[string]any) map[string]any { r, _, _ := evRun(cc, nil); return r }, c2)
	}
	if c["want_diags"] == true {
		res["diags"] = diagTexts(diags)
	}
	if out != nil && c["want_redacted"] == true {
		res["redacted"] = evRedacted(out)
	}
	// determinism oracle: repeat the evaluation, compare json.Marshal(Environment) and the sorted diagnostics
	if n, ok := c["repeat"].(json.Number); ok && out != nil {
		k, _ := n.Int64()
		b0, err0 := json.Marshal(out)
		d0 := diagTexts(diags)
		sort.Strings(d0)
		diff := ""
		for i := int64(0); i < k && diff == ""; i++ {
			_, o2, dg2 := evRun(c, nil)
			b2, err2 := json.Marshal(o2)
			d2 := diagTexts(dg2)
			sort.Strings(d2)
			if (err0 == nil) != (err2 == nil) || string(b0) != string(b2) {
				diff = "environment JSON differs between runs"
			} else if strings.Join(d0, "\n") != strings.Join(d2, "\n") {
				diff = "diagnostics differ between runs: " + strings.Join(d0, " | ") + " <> " + strings.Join(d2, " | ")
			}
		}
		// history: the same collaborators (one ExecContext object) first serve evaluations of OTHER environments of the
		// world (each import as a root of its own, then a small unrelated definition), then this one again
		if diff == "" && c["history"] == true {
			shared, _ := esc.NewExecContext(map[string]esc.Value{})
			if cv, ok := c["ctx"].(map[string]any); ok {
				vals := map[string]esc.Value{}
				for k, v := range cv {
					vals[k] = valueFrom(v, nil)
				}
				shared, _ = esc.NewExecContext(vals)
			}
			evSharedExecCtx = shared
			func() {
				defer func() {
					evSharedExecCtx = nil
					if r := recover(); r != nil {
						diff = fmt.Sprintf("panic in the history run (shared ExecContext): %v", r)
					}
				}()
				names := []string{}
				if envs, ok := c["envs"].(map[string]any); ok {
					for n := range envs {
						names = append(names, n)
					}
				}
				sort.Strings(names)
				for _, n := range names {
					if e, ok := c["envs"].(map[string]any)[n].(map[string]any); ok && e["kind"] == "yaml" {
						c2 := map[string]any{}
						for k, v := range c {
							c2[k] = v
						}
						c2["name"], c2["text"] = n, e["text"]
						evRun(c2, nil)
					}
				}
				c3 := map[string]any{"name": "hist-other", "text": "values:\n  n: ${context.rootEnvironment.name}\n  m: {fn::toJSON: [1, 2]}\n",
					"envs": c["envs"], "provs": c["provs"]}
				evRun(c3, nil)
				_, o2, dg2 := evRun(c, nil)
				b2, err2 := json.Marshal(o2)
				d2 := diagTexts(dg2)
				sort.Strings(d2)
				if (err0 == nil) != (err2 == nil) || string(b0) != string(b2) {
					diff = "environment JSON depends on the evaluations that preceded it (shared ExecContext)"
				} else if strings.Join(d0, "\n") != strings.Join(d2, "\n") {
					diff = "diagnostics depend on the evaluations that preceded it (shared ExecContext)"
				}
			}()
		}
		res["repeat_diff"] = diff
		sum := sha256.Sum256([]byte(string(b0) + "\x00" + strings.Join(d0, "\n")))
		res["hash"] = hex.EncodeToString(sum[:])
		if err0 != nil {
			res["marshal_error"] = err0.Error()
		}
	}
	// non-interference oracle: second run with substituted secret payloads; redacted renderings must be identical
	if sub, ok := c["secrets2"].(map[string]any); ok {
		m := map[string]string{}
		for k, v := range sub {
			m[k] = v.(string)
		}
		res2, out2, _ := evRun(c, m)
		if out != nil && out2 != nil && res["errors"] == false && res2["errors"] == false {
			r1, r2 := evRedacted(out), evRedacted(out2)
			b1, _ := json.Marshal(r1)
			b2, _ := json.Marshal(r2)
			res["ni_compared"] = true
			res["ni_equal"] = string(b1) == string(b2)
			if string(b1) != string(b2) {
				res["ni_r1"], res["ni_r2"] = r1, r2
			}
			res["value2"] = res2["value"]
		} else {
			res["ni_compared"] = false
		}
	}
	return res
}

func evRedacted(out *esc.Environment) map[string]any {
	v := esc.NewValue(out.Properties)
	js, _ := json.Marshal(v.ToJSON(true))
	r := map[string]any{"json": string(js), "string": v.ToString(true)}
	// the CLI's own projection (esc env get --format dotenv|shell without --show-secrets; esc run/open pretend mode)
	for name, o := range map[string]*cli.PrepareOptions{
		"envvars":        {Pretend: true, Redact: true},
		"envvars_dotenv": {Pretend: true, Redact: true, Quote: true},
		"envvars_shell":  {Pretend: true, Redact: true, Quote: true, Shell: true},
	} {
		_, environ, _, err := cli.PrepareEnvironment(out, o)
		if err != nil {
			r[name] = "error: " + err.Error()
		} else {
			r[name] = environ
		}
	}
	return r
}
