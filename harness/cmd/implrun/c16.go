package main

// C16 — temporary secret files of `esc run`.
//
// The handler builds an in-memory, fault-injecting file system (escFS), a stub process runner (cmdExec), a fixed
// process environment (environ) and a stub API client, puts them into the CLI through the `verif` hook
// cmd/esc/cli/export_verif_c16.go and then drives either the real `esc run` cobra command (op "run") or
// cli.PrepareEnvironment (op "prepare").  The observation is a projection: the trace of file-system/process
// operations, the files left in the file system, what the child saw when it was started and an error class.

import (
	"bytes"
	"context"
	"encoding/hex"
	"encoding/json"
	"errors"
	"fmt"
	"io"
	iofs "io/fs"
	"os"
	"os/exec"
	"sort"
	"strings"
	"time"

	"github.com/pulumi/esc"
	"github.com/pulumi/esc/cmd/esc/cli"
	"github.com/pulumi/esc/cmd/esc/cli/client"
	"github.com/pulumi/pulumi/pkg/v3/backend/display"
	pworkspace "github.com/pulumi/pulumi/sdk/v3/go/common/workspace"
)

func init() { register("C16", c16) }

// ---------------------------------------------------------------------------------------------
// fault plan and trace

type c16Plan struct {
	faults map[string]bool // "<kind>/<index>"
	counts map[string]int
	trace  [][]any
}

// next reports whether the next operation of the given kind is made to fail, and counts it.
func (p *c16Plan) next(kind string) bool {
	i := p.counts[kind]
	p.counts[kind] = i + 1
	return p.faults[fmt.Sprintf("%s/%d", kind, i)]
}

// c16RealExitError: what the real process runner returns for a child that was started and exited non-zero is an
// *exec.ExitError; the fake runner hands out a genuine one (obtained once from a real child), so that code which treats
// that error type specially (exit-status forwarding) is on the path.  Without a shell it falls back to a plain error.
func c16RealExitError() error {
	for _, sh := range []string{"/bin/sh", "/usr/bin/sh", "/bin/false", "/usr/bin/false"} {
		var c *exec.Cmd
		if strings.HasSuffix(sh, "sh") {
			c = exec.Command(sh, "-c", "exit 1")
		} else {
			c = exec.Command(sh)
		}
		err := c.Run()
		var ee *exec.ExitError
		if errors.As(err, &ee) {
			return err
		}
	}
	return errors.New("exit status 1")
}

func (p *c16Plan) log(kind, path string, flag any) {
	p.trace = append(p.trace, []any{kind, hex.EncodeToString([]byte(path)), flag})
}

var (
	errC16Fault  = errors.New("injected fault")
	errC16Exit   = c16RealExitError()
	errC16Open   = errors.New("open failed")
	errC16Closed = errors.New("file already closed")
)

func c16Partial(b []byte) []byte { return b[:len(b)/2] }

// ---------------------------------------------------------------------------------------------
// file system: a map path -> content; temporary files are named <dir>/<pattern with * := temp-N>, N counting the
// successful CreateTemp calls (never reused)

type c16File struct{ data []byte }

type c16FS struct {
	plan  *c16Plan
	files map[string]*c16File
	next  int
}

type c16Handle struct {
	fs     *c16FS
	name   string
	f      *c16File
	closed bool
}

func (fs *c16FS) MkdirAll(name string, perm iofs.FileMode) error { return nil }

func (fs *c16FS) LockedRead(name string) ([]byte, error) {
	f, ok := fs.files[name]
	if !ok {
		return nil, &iofs.PathError{Op: "open", Path: name, Err: iofs.ErrNotExist}
	}
	return append([]byte(nil), f.data...), nil
}

func (fs *c16FS) LockedWrite(name string, content io.Reader, perm os.FileMode) error {
	data, err := io.ReadAll(content)
	if err != nil {
		return err
	}
	fs.files[name] = &c16File{data: data}
	return nil
}

func (fs *c16FS) Open(name string) (iofs.File, error) {
	return nil, &iofs.PathError{Op: "open", Path: name, Err: iofs.ErrNotExist}
}

func (fs *c16FS) CreateTemp(dir, pattern string) (string, io.ReadWriteCloser, error) {
	if fs.plan.next("create") {
		fs.plan.log("create", "", false)
		return "", nil, errC16Fault
	}
	if dir == "" {
		dir = "temp"
	}
	name := dir + "/" + strings.ReplaceAll(pattern, "*", fmt.Sprintf("temp-%d", fs.next))
	fs.next++
	f := &c16File{}
	fs.files[name] = f
	fs.plan.log("create", name, true)
	return name, &c16Handle{fs: fs, name: name, f: f}, nil
}

func (fs *c16FS) Remove(name string) error {
	faulted := fs.plan.next("remove")
	_, ok := fs.files[name]
	switch {
	case faulted:
		fs.plan.log("remove", name, "fault")
		return errC16Fault
	case !ok:
		fs.plan.log("remove", name, "missing")
		return &iofs.PathError{Op: "remove", Path: name, Err: iofs.ErrNotExist}
	}
	delete(fs.files, name)
	fs.plan.log("remove", name, "ok")
	return nil
}

func (h *c16Handle) Read(p []byte) (int, error) { return 0, io.EOF }

// Write appends; a faulted Write stores the first half of the bytes and reports an error.
func (h *c16Handle) Write(p []byte) (int, error) {
	if h.closed {
		h.fs.plan.log("writeclosed", h.name, false)
		return 0, errC16Closed
	}
	if h.fs.plan.next("write") {
		q := c16Partial(p)
		h.f.data = append(h.f.data, q...)
		h.fs.plan.log("write", h.name, false)
		return len(q), errC16Fault
	}
	h.f.data = append(h.f.data, p...)
	h.fs.plan.log("write", h.name, true)
	return len(p), nil
}

// Close: a faulted Close is a failed write-back (cf. close(2): errors of earlier writes may be reported only at
// close, "failing to check the return value may lead to silent loss of data"): the file keeps only the first half of
// its bytes.  Closing a closed handle is not a file-system operation: it is logged as "reclose" and fails.
func (h *c16Handle) Close() error {
	if h.closed {
		h.fs.plan.log("reclose", h.name, false)
		return errC16Closed
	}
	h.closed = true
	if h.fs.plan.next("close") {
		h.f.data = c16Partial(h.f.data)
		h.fs.plan.log("close", h.name, false)
		return errC16Fault
	}
	h.fs.plan.log("close", h.name, true)
	return nil
}

func (fs *c16FS) snapshot() [][]string {
	names := make([]string, 0, len(fs.files))
	for n := range fs.files {
		names = append(names, n)
	}
	sort.Strings(names)
	out := make([][]string, 0, len(names))
	for _, n := range names {
		out = append(out, []string{hex.EncodeToString([]byte(n)), hex.EncodeToString(fs.files[n].data)})
	}
	return out
}

// ---------------------------------------------------------------------------------------------
// process runner

type c16Exec struct {
	fs       *c16FS
	plan     *c16Plan
	found    bool
	exitOK   bool
	unlink   bool
	started  int
	childEnv []string
	childFS  [][]string
}

func (e *c16Exec) LookPath(command string) (string, error) {
	if !e.found {
		return "", errors.New("command not found")
	}
	return "/verif/bin/" + command, nil
}

func (e *c16Exec) Run(cmd *exec.Cmd) error {
	if e.plan.next("run") {
		e.plan.log("run", "", false)
		return errC16Fault
	}
	e.plan.log("run", "", true)
	e.started++
	e.childEnv = append([]string(nil), cmd.Env...)
	e.childFS = e.fs.snapshot()
	if e.unlink {
		// the child deletes every file named by the value of one of its environment variables
		for _, kv := range cmd.Env {
			if i := strings.IndexByte(kv, '='); i >= 0 {
				delete(e.fs.files, kv[i+1:])
			}
		}
	}
	if !e.exitOK {
		return errC16Exit
	}
	return nil
}

type c16Environ []string

func (c16Environ) Get(key string) string { return "" }
func (e c16Environ) Vars() []string      { return append([]string(nil), e...) }

// ---------------------------------------------------------------------------------------------
// backend stubs

type c16Client struct {
	client.Client // nil: any method the command is not expected to call panics (and is reported)
	mode          string
	env           *esc.Environment
}

func (c *c16Client) Insecure() bool { return false }
func (c *c16Client) URL() string    { return "https://api.pulumi.com" }

func (c *c16Client) EnvironmentExists(ctx context.Context, orgName, projectName, envName string) (bool, error) {
	return true, nil
}

func (c *c16Client) OpenEnvironment(ctx context.Context, orgName, projectName, envName, version string,
	duration time.Duration) (string, []client.EnvironmentDiagnostic, error) {
	switch c.mode {
	case "err":
		return "", nil, errC16Open
	case "diags":
		return "", []client.EnvironmentDiagnostic{{Summary: "diagnostic"}}, nil
	}
	return "open-1", nil, nil
}

func (c *c16Client) GetOpenEnvironmentWithProject(ctx context.Context, orgName, projectName, envName,
	openEnvID string) (*esc.Environment, error) {
	return c.env, nil
}

type c16Login struct{}

var c16Account = pworkspace.Account{Username: "test-user", AccessToken: "access-token"}

func (c16Login) Current(ctx context.Context, cloudURL string, insecure, setCurrent bool) (*pworkspace.Account, error) {
	a := c16Account
	return &a, nil
}

func (c16Login) Login(ctx context.Context, cloudURL string, insecure bool, command string, message string,
	welcome func(display.Options), current bool, opts display.Options) (*pworkspace.Account, error) {
	a := c16Account
	return &a, nil
}

type c16Workspace struct{}

func (c16Workspace) DeleteAccount(backendURL string) error                   { return nil }
func (c16Workspace) DeleteAllAccounts() error                                { return nil }
func (c16Workspace) SetBackendConfigDefaultOrg(backendURL, org string) error { return nil }
func (c16Workspace) GetPulumiConfig() (pworkspace.PulumiConfig, error) {
	return pworkspace.PulumiConfig{}, nil
}
func (c16Workspace) GetPulumiPath(elem ...string) (string, error) {
	return "home/.pulumi/" + strings.Join(elem, "/"), nil
}
func (c16Workspace) StoreAccount(k string, a pworkspace.Account, c bool) error { return nil }
func (c16Workspace) GetAccount(key string) (pworkspace.Account, error)         { return c16Account, nil }
func (c16Workspace) GetStoredCredentials() (pworkspace.Credentials, error) {
	return pworkspace.Credentials{Current: "https://api.pulumi.com",
		Accounts: map[string]pworkspace.Account{"https://api.pulumi.com": c16Account}}, nil
}

// ---------------------------------------------------------------------------------------------
// case decoding

func c16Hex(v any) string {
	s, _ := v.(string)
	b, _ := hex.DecodeString(s)
	return string(b)
}

func c16Bool(c map[string]any, k string, def bool) bool {
	if b, ok := c[k].(bool); ok {
		return b
	}
	return def
}

// entries: [{"k": hex key, "t": kind, "v": hex text, "s": secret}]; kinds: s string, b bool, n number, z null,
// o object, a array (the last two are not scalars and are skipped by the projection)
func c16Entries(v any) (map[string]esc.Value, bool) {
	l, _ := v.([]any)
	if len(l) == 0 {
		return nil, false
	}
	m := map[string]esc.Value{}
	for _, x := range l {
		e, _ := x.(map[string]any)
		text := c16Hex(e["v"])
		var val esc.Value
		switch e["t"] {
		case "s":
			val = esc.NewValue(text)
		case "b":
			val = esc.NewValue(text == "true")
		case "n":
			val = esc.NewValue(json.Number(text))
		case "z":
			val = esc.Value{}
		case "o":
			val = esc.NewValue(map[string]esc.Value{"inner": esc.NewValue(text)})
		default:
			val = esc.NewValue([]esc.Value{esc.NewValue(text)})
		}
		if s, _ := e["s"].(bool); s {
			val.Secret = true
		}
		m[c16Hex(e["k"])] = val
	}
	return m, true
}

func c16HexList(l []string) []string {
	out := make([]string, len(l))
	for i, s := range l {
		out[i] = hex.EncodeToString([]byte(s))
	}
	return out
}

const c16CredsPath = "home/.pulumi/.esc/credentials.json"

func c16(c map[string]any) map[string]any {
	plan := &c16Plan{faults: map[string]bool{}, counts: map[string]int{}, trace: [][]any{}}
	if l, ok := c["faults"].([]any); ok {
		for _, x := range l {
			p, _ := x.([]any)
			if len(p) == 2 {
				plan.faults[fmt.Sprintf("%v/%v", p[0], p[1])] = true
			}
		}
	}
	fs := &c16FS{plan: plan, files: map[string]*c16File{}}
	// a file that is in the file system before the command starts (the CLI reads it to find the current account)
	fs.files[c16CredsPath] = &c16File{data: []byte(`{"name":"https://api.pulumi.com"}`)}
	if l, ok := c["pre"].([]any); ok {
		for _, x := range l {
			p, _ := x.([]any)
			if len(p) == 2 {
				fs.files[c16Hex(p[0])] = &c16File{data: []byte(c16Hex(p[1]))}
			}
		}
	}

	props := map[string]esc.Value{}
	if m, ok := c16Entries(c["files"]); ok {
		props["files"] = esc.NewValue(m)
	}
	if m, ok := c16Entries(c["vars"]); ok {
		props["environmentVariables"] = esc.NewValue(m)
	}
	env := &esc.Environment{Properties: props}

	var base c16Environ
	if l, ok := c["base"].([]any); ok {
		for _, x := range l {
			base = append(base, c16Hex(x))
		}
	}

	res := map[string]any{"initial": fs.snapshot()}
	switch str(c, "op") {
	case "prepare":
		paths, environ, secrets, err := cli.PrepareEnvironment(env,
			cli.VerifC16PrepareOptions(cli.PrepareOptions{Pretend: c16Bool(c, "pretend", false)}, fs))
		switch {
		case err == nil:
			res["err"] = "ok"
		case strings.HasPrefix(err.Error(), "creating temporary files:"):
			res["err"] = "prepare"
		default:
			res["err"] = "other:" + err.Error()
		}
		res["paths"] = c16HexList(paths)
		res["environ"] = c16HexList(environ)
		res["secrets"] = c16HexList(secrets)
		res["child"] = nil
	case "run":
		ex := &c16Exec{fs: fs, plan: plan, found: c16Bool(c, "lookpath", true), exitOK: c16Bool(c, "exit", true),
			unlink: c16Bool(c, "unlink", false)}
		cl := &c16Client{mode: str(c, "open"), env: env}
		var stdout, stderr bytes.Buffer
		opts := cli.VerifC16Options(cli.Options{
			Stdin: bytes.NewReader(nil), Stdout: &stdout, Stderr: &stderr,
			Login: c16Login{}, PulumiWorkspace: c16Workspace{},
		}, fs, ex, base, func(userAgent, backendURL, accessToken string, insecure bool) client.Client { return cl })
		cmd := cli.New(opts)
		cmd.SetArgs([]string{"run", "org/proj/env", "--", "child", "arg"})
		cmd.SetOut(&stdout)
		cmd.SetErr(&stderr)
		cmd.SilenceErrors = true
		err := cmd.Execute()
		switch {
		case err == nil:
			res["err"] = "ok"
		case errors.Is(err, errC16Exit):
			res["err"] = "exit"
		case errors.Is(err, errC16Open):
			res["err"] = "open"
		case strings.HasPrefix(err.Error(), "resolving command:"):
			res["err"] = "lookpath"
		case strings.HasPrefix(err.Error(), "creating temporary files:"):
			res["err"] = "prepare"
		case errors.Is(err, errC16Fault):
			res["err"] = "start"
		default:
			res["err"] = "other:" + err.Error()
		}
		res["started"] = ex.started
		if ex.started > 0 {
			res["child"] = map[string]any{"env": c16HexList(ex.childEnv), "files": ex.childFS}
		} else {
			res["child"] = nil
		}
	default:
		return map[string]any{"err": "badop"}
	}
	res["trace"] = plan.trace
	res["final"] = fs.snapshot()
	return res
}
