package main

// Handler "EVRAW": byte-level totality.  Offers arbitrary bytes as the root definition (and as imported
// definitions) to LoadYAMLBytes, CheckEnvironment, EvalEnvironment, EncryptSecrets and DecryptSecrets and reports
// only whether each returned normally.  A Go panic is caught per operation; a fatal crash or hang kills the
// process and is detected by the driver.

import (
	"context"
	"encoding/hex"
	"errors"
	"os"
	"strconv"
	"time"

	"github.com/pulumi/esc"
	"github.com/pulumi/esc/eval"
)

// evrawHangAfter: an operation that has not returned after this long counts as a hang.  Generous on purpose (a loaded
// machine must not turn a slow operation into an alarm); VERIF_HANG_SECONDS overrides it for experiments.
var evrawHangAfter = func() time.Duration {
	if v, err := strconv.Atoi(os.Getenv("VERIF_HANG_SECONDS")); err == nil && v > 0 {
		return time.Duration(v) * time.Second
	}
	return 20 * time.Second
}()

func init() { register("EVRAW", evRawHandler) }

type rawWorld struct{ envs map[string][]byte }

func (w rawWorld) LoadEnvironment(ctx context.Context, name string) ([]byte, eval.Decrypter, error) {
	b, ok := w.envs[name]
	if !ok {
		return nil, nil, errors.New("not found")
	}
	return b, rawCrypter{}, nil
}

func (w rawWorld) LoadProvider(ctx context.Context, name string) (esc.Provider, error) {
	if name == "missing" {
		return nil, errors.New("unknown provider")
	}
	return evProvider{&evWorld{fault: -1}, name, map[string]any{"in": "always", "out": "always", "beh": "echo"}}, nil
}

type rawCrypter struct{}

func (rawCrypter) Decrypt(ctx context.Context, b []byte) ([]byte, error) {
	if len(b) > 0 && b[0] == '!' {
		return nil, errors.New("cannot decrypt")
	}
	return append([]byte("pt:"), b...), nil
}
func (rawCrypter) Encrypt(ctx context.Context, b []byte) ([]byte, error) {
	if len(b) > 0 && b[0] == '!' {
		return nil, errors.New("cannot encrypt")
	}
	return append([]byte("ct:"), b...), nil
}

func guarded(f func() string) (out string) {
	done := make(chan string, 1)
	go func() {
		defer func() {
			if r := recover(); r != nil {
				done <- "panic"
			}
		}()
		done <- f()
	}()
	select {
	case s := <-done:
		return s
	case <-time.After(evrawHangAfter):
		return "hang"
	}
}

func evRawHandler(c map[string]any) map[string]any {
	text, _ := hex.DecodeString(str(c, "text"))
	w := rawWorld{envs: map[string][]byte{}}
	if envs, ok := c["envs"].(map[string]any); ok {
		for k, v := range envs {
			b, _ := hex.DecodeString(v.(string))
			w.envs[k] = b
		}
	}
	res := map[string]any{}
	execCtx, _ := esc.NewExecContext(map[string]esc.Value{})
	res["load"] = guarded(func() string {
		_, d, err := eval.LoadYAMLBytes("root", text)
		if err != nil {
			return "err"
		}
		if d.HasErrors() {
			return "diags"
		}
		return "ok"
	})
	if res["load"] == "hang" {
		res["_exit"] = true
		return res
	}
	for _, mode := range []string{"check", "checkshow", "open"} {
		mode := mode
		res[mode] = guarded(func() string {
			env, d, err := eval.LoadYAMLBytes("root", text)
			if err != nil || env == nil {
				return "noload"
			}
			_ = d
			var dg interface{ HasErrors() bool }
			switch mode {
			case "check":
				_, dd := eval.CheckEnvironment(context.Background(), "root", env, rawCrypter{}, w, w, execCtx, false)
				dg = dd
			case "checkshow":
				_, dd := eval.CheckEnvironment(context.Background(), "root", env, rawCrypter{}, w, w, execCtx, true)
				dg = dd
			default:
				_, dd := eval.EvalEnvironment(context.Background(), "root", env, rawCrypter{}, w, w, execCtx)
				dg = dd
			}
			if dg.HasErrors() {
				return "diags"
			}
			return "ok"
		})
	}
	res["encrypt"] = guarded(func() string {
		_, err := eval.EncryptSecrets(context.Background(), "root", text, rawCrypter{})
		if err != nil {
			return "err"
		}
		return "ok"
	})
	if res["load"] == "hang" {
		res["_exit"] = true
		return res
	}
	res["decrypt"] = guarded(func() string {
		_, err := eval.DecryptSecrets(context.Background(), "root", text, rawCrypter{})
		if err != nil {
			return "err"
		}
		return "ok"
	})
	return res
}
