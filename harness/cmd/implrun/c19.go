package main

// C19 — reported source ranges point at the right text.
//
// One case = a set of environment documents (hex) and the name of the root.  The handler loads the root with the
// real loader (eval.LoadYAMLBytes), evaluates it (CheckEnvironment or EvalEnvironment) with an environment loader that
// serves the other documents, and reports EVERY range it can reach: Environment.Exprs (recursively: expression
// ranges, key ranges, builtin name ranges, accessor ranges, receiver / resolved-value ranges, bases),
// Value.Trace.Def of every (nested) value and of the bases, and the subjects of all diagnostics.  Every document is
// also evaluated as a root of its own, so that the expressions of imported documents are walked too.
//
// Next to the ranges the handler reports what gopkg.in/yaml.v3 itself says about the nodes of every document
// (line, column, kind, style, tag, value, index of the last child), and for each range that was reached by walking
// Exprs in parallel with the YAML tree, the index of the YAML node it belongs to.  No diagnostic text is reported.
//
// The library github.com/rivo/uniseg is a collaborator of the code under test, like yaml.v3: the handler reports the
// library's own answers for the bytes of the case, and the model is fed with them — for every line that contains a
// non-ASCII byte the grapheme clusters uniseg.Step yields (byte length, width), and for every scalar whose value is
// not printable ASCII (plain style: the only one ScalarRange handles) uniseg.StringWidth of each of its prefixes.

import (
	"bytes"
	"context"
	"encoding/hex"
	"errors"
	"io"
	"sort"

	"github.com/pulumi/esc"
	"github.com/pulumi/esc/ast"
	"github.com/pulumi/esc/eval"
	"github.com/pulumi/esc/syntax"
	"github.com/rivo/uniseg"
	"gopkg.in/yaml.v3"
)

func init() { register("C19", c19) }

type c19Node struct {
	n      *yaml.Node
	idx    int
	parent int
}

type c19Doc struct {
	name  string
	src   []byte
	root  *yaml.Node // content node of the document (nil if yaml.v3 rejects the text)
	nodes []*yaml.Node
	index map[*yaml.Node]int
}

type c19Envs struct {
	docs map[string]*c19Doc
}

func (e c19Envs) LoadEnvironment(_ context.Context, name string) ([]byte, eval.Decrypter, error) {
	if d, ok := e.docs[name]; ok {
		return d.src, nil, nil
	}
	return nil, nil, errors.New("not found")
}

type c19Providers struct{}

func (c19Providers) LoadProvider(_ context.Context, name string) (esc.Provider, error) {
	return nil, errors.New("no providers")
}

func (d *c19Doc) enumerate(n *yaml.Node) {
	d.index[n] = len(d.nodes)
	d.nodes = append(d.nodes, n)
	for _, c := range n.Content {
		d.enumerate(c)
	}
}

func c19ParseDoc(name string, src []byte) *c19Doc {
	d := &c19Doc{name: name, src: src, index: map[*yaml.Node]int{}}
	var doc yaml.Node
	if err := yaml.Unmarshal(src, &doc); err != nil || doc.Kind != yaml.DocumentNode || len(doc.Content) == 0 {
		return d
	}
	d.root = doc.Content[0]
	d.enumerate(d.root)
	return d
}

func c19MapValue(n *yaml.Node, key string) (k, v *yaml.Node) {
	if n == nil || n.Kind != yaml.MappingNode {
		return nil, nil
	}
	// the evaluator keeps the last occurrence of a duplicated key; such documents are reported as errors anyway
	for i := 0; i+1 < len(n.Content); i += 2 {
		if n.Content[i].Kind == yaml.ScalarNode && n.Content[i].Value == key {
			k, v = n.Content[i], n.Content[i+1]
		}
	}
	return k, v
}

type c19Out struct {
	envs   c19Envs
	ranges []map[string]any
	seen   map[string]bool
}

func c19PosTriple(p esc.Pos) []int { return []int{p.Line, p.Column, p.Byte} }

// add records one range.  node = index of the yaml node in the document named by the range (-1: not resolved),
// what = which position of the API it came from.
func (o *c19Out) add(what string, r esc.Range, doc *c19Doc, node *yaml.Node) {
	idx := -1
	if doc != nil && node != nil && doc.name == r.Environment {
		if i, ok := doc.index[node]; ok {
			idx = i
		}
	}
	m := map[string]any{"what": what, "env": r.Environment, "node": idx, "b": c19PosTriple(r.Begin), "e": c19PosTriple(r.End)}
	o.ranges = append(o.ranges, m)
}

// addAcc records the range of an accessor together with what the accessor is (key or index), so that the text
// under the range can be compared with the accessor's own spelling.
func (o *c19Out) addAcc(a esc.Accessor, doc *c19Doc, node *yaml.Node) {
	o.add("acc", a.Range, doc, node)
	m := o.ranges[len(o.ranges)-1]
	switch {
	case a.Key != nil:
		m["key"] = hex.EncodeToString([]byte(*a.Key))
	case a.Index != nil:
		m["index"] = *a.Index
	}
}

func (o *c19Out) walkAccessors(accs []esc.PropertyAccessor, doc *c19Doc, node *yaml.Node) {
	for _, a := range accs {
		o.addAcc(a.Accessor, doc, node)
		o.add("accval", a.Value, nil, nil)
	}
}

// walkExpr walks an exported expression in parallel with the yaml node it was built from (node may be nil when the
// shapes no longer line up; the ranges are then reported unresolved).
func (o *c19Out) walkExpr(ex esc.Expr, doc *c19Doc, node *yaml.Node, path []any) {
	// a range naming another environment than the document we are walking (bases come from imports)
	if doc != nil && ex.Range.Environment != doc.name {
		doc, node = nil, nil
	}
	zero := ex.Range.Begin == (esc.Pos{}) && ex.Range.End == (esc.Pos{})
	if !zero || ex.Range.Environment != "" {
		o.add("expr", ex.Range, doc, node)
	}
	if ex.Base != nil {
		// The base of an expression lives in an imported document, or is an access expression that borrows the
		// range of the KEY it was reached through: not attached to a node, compared by membership.
		o.walkExpr(*ex.Base, nil, nil, path)
	}
	for _, part := range ex.Interpolate {
		o.walkAccessors(part.Value, doc, node)
	}
	o.walkAccessors(ex.Symbol, doc, node)
	if ex.Access != nil {
		o.add("recv", ex.Access.Receiver, nil, nil)
		for _, a := range ex.Access.Accessors {
			o.addAcc(a, doc, node)
		}
	}
	for i, el := range ex.List {
		var c *yaml.Node
		if node != nil && node.Kind == yaml.SequenceNode && i < len(node.Content) {
			c = node.Content[i]
		}
		o.walkExpr(el, doc, c, append(append([]any{}, path...), i))
	}
	keys := make([]string, 0, len(ex.KeyRanges))
	for k := range ex.KeyRanges {
		keys = append(keys, k)
	}
	sort.Strings(keys)
	for _, k := range keys {
		kn, _ := c19MapValue(node, k)
		o.add("key", ex.KeyRanges[k], doc, kn)
	}
	keys = keys[:0]
	for k := range ex.Object {
		keys = append(keys, k)
	}
	sort.Strings(keys)
	for _, k := range keys {
		_, vn := c19MapValue(node, k)
		o.walkExpr(ex.Object[k], doc, vn, append(append([]any{}, path...), k))
	}
	if ex.Builtin != nil {
		kn, vn := c19MapValue(node, ex.Builtin.Name)
		o.add("name", ex.Builtin.NameRange, doc, kn)
		o.walkExpr(ex.Builtin.Arg, doc, vn, nil)
	}
}

func (o *c19Out) walkValue(v esc.Value) {
	o.add("def", v.Trace.Def, nil, nil)
	if v.Trace.Base != nil {
		o.walkValue(*v.Trace.Base)
	}
	switch x := v.Value.(type) {
	case []esc.Value:
		for _, e := range x {
			o.walkValue(e)
		}
	case map[string]esc.Value:
		keys := make([]string, 0, len(x))
		for k := range x {
			keys = append(keys, k)
		}
		sort.Strings(keys)
		for _, k := range keys {
			o.walkValue(x[k])
		}
	}
}

func (o *c19Out) diags(ds syntax.Diagnostics, file string) {
	for _, d := range ds {
		if d.Subject == nil {
			continue
		}
		r := esc.Range{Environment: d.Subject.Filename,
			Begin: esc.Pos{Line: d.Subject.Start.Line, Column: d.Subject.Start.Column, Byte: d.Subject.Start.Byte},
			End:   esc.Pos{Line: d.Subject.End.Line, Column: d.Subject.End.Column, Byte: d.Subject.End.Byte}}
		o.add("diag", r, nil, nil)
	}
}

// c19Segs: for every line with a non-ASCII byte, [line index, len, width, len, width, ...] as uniseg.Step yields them.
func c19Segs(src []byte) [][]int {
	out := [][]int{}
	i := 0
	for {
		line, rest, found := bytes.Cut(src, []byte{'\n'})
		ascii := true
		for _, b := range line {
			if b&0x80 != 0 {
				ascii = false
				break
			}
		}
		if !ascii {
			row := []int{i}
			r, state := line, -1
			for len(r) > 0 {
				cluster, nr, w, ns := uniseg.Step(r, state)
				row = append(row, len(cluster), w>>uniseg.ShiftWidth)
				r, state = nr, ns
			}
			out = append(out, row)
		}
		if !found {
			return out
		}
		src, i = rest, i+1
	}
}

// c19PrefixWidths: uniseg.StringWidth(v[:k]) for k = 0..len(v); nil for printable ASCII (width = length).
func c19PrefixWidths(v string) []int {
	plain := true
	for i := 0; i < len(v); i++ {
		if v[i] < 0x20 || v[i] >= 0x7f {
			plain = false
			break
		}
	}
	if plain || len(v) > 20000 {
		return []int{}
	}
	out := make([]int, len(v)+1)
	for k := 0; k <= len(v); k++ {
		out[k] = uniseg.StringWidth(v[:k])
	}
	return out
}

func c19(c map[string]any) map[string]any {
	envs := c19Envs{docs: map[string]*c19Doc{}}
	raw, _ := c["envs"].(map[string]any)
	names := []string{}
	for name, h := range raw {
		s, _ := h.(string)
		b, _ := hex.DecodeString(s)
		envs.docs[name] = c19ParseDoc(name, b)
		names = append(names, name)
	}
	sort.Strings(names)
	mode := str(c, "mode")
	out := &c19Out{envs: envs}
	status := map[string]any{}

	// the root first, then every other document as a root of its own
	order := []string{str(c, "main")}
	for _, n := range names {
		if n != order[0] {
			order = append(order, n)
		}
	}
	for _, name := range order {
		doc := envs.docs[name]
		if doc == nil {
			continue
		}
		decl, ldiags, err := eval.LoadYAMLBytes(name, doc.src)
		out.diags(ldiags, name)
		if err != nil {
			status[name] = "loaderr"
			continue
		}
		if decl == nil {
			status[name] = "loaddiag"
			continue
		}
		run := func(decl *ast.EnvironmentDecl) (*esc.Environment, syntax.Diagnostics) {
			ectx, _ := esc.NewExecContext(map[string]esc.Value{})
			if mode == "eval" {
				return eval.EvalEnvironment(context.Background(), name, decl, nil, c19Providers{}, envs, ectx)
			}
			return eval.CheckEnvironment(context.Background(), name, decl, nil, c19Providers{}, envs, ectx, true)
		}
		env, ediags := run(decl)
		out.diags(ediags, name)
		if env == nil {
			status[name] = "empty"
			continue
		}
		if len(ediags) != 0 {
			status[name] = "diags"
		} else {
			status[name] = "ok"
		}
		// Other routes to the same positions (every range they report is recorded next to the first route's; exact
		// duplicates are dropped below, so on a tree where the routes agree nothing is added):
		//  (1) the diagnostics are printed with the declaration's own writer and the SAME declaration is evaluated again;
		//  (2) the text is loaded through the io.Reader entry point eval.LoadYAML.
		others := []*esc.Environment{}
		func() {
			defer func() { _ = recover() }()
			w := decl.NewDiagnosticWriter(io.Discard, 0, false)
			for _, ds := range []syntax.Diagnostics{ldiags, ediags} {
				for _, d := range ds {
					if d != nil {
						_ = w.WriteDiagnostic(&d.Diagnostic)
					}
				}
			}
		}()
		if env2, ediags2 := run(decl); env2 != nil {
			out.diags(ediags2, name)
			others = append(others, env2)
		}
		if decl3, ldiags3, err3 := eval.LoadYAML(name, bytes.NewReader(doc.src)); err3 == nil && decl3 != nil {
			out.diags(ldiags3, name)
			if env3, ediags3 := run(decl3); env3 != nil {
				out.diags(ediags3, name)
				others = append(others, env3)
			}
		}
		var vals *yaml.Node
		if doc.root != nil {
			_, vals = c19MapValue(doc.root, "values")
		}
		keys := make([]string, 0, len(env.Exprs))
		for k := range env.Exprs {
			keys = append(keys, k)
		}
		sort.Strings(keys)
		for _, k := range keys {
			kn, vn := c19MapValue(vals, k)
			_ = kn
			out.walkExpr(env.Exprs[k], doc, vn, []any{k})
		}
		keys = keys[:0]
		for k := range env.Properties {
			keys = append(keys, k)
		}
		sort.Strings(keys)
		for _, k := range keys {
			out.walkValue(env.Properties[k])
		}
		for _, oe := range others {
			out.seen = nil // values are remembered by range: let the other route's values be walked again
			keys = keys[:0]
			for k := range oe.Exprs {
				keys = append(keys, k)
			}
			sort.Strings(keys)
			for _, k := range keys {
				_, vn := c19MapValue(vals, k)
				out.walkExpr(oe.Exprs[k], doc, vn, []any{k})
			}
			keys = keys[:0]
			for k := range oe.Properties {
				keys = append(keys, k)
			}
			sort.Strings(keys)
			for _, k := range keys {
				out.walkValue(oe.Properties[k])
			}
		}
	}

	// yaml.v3's own view of every document
	docs := []map[string]any{}
	for _, name := range names {
		d := envs.docs[name]
		nodes := make([]map[string]any, len(d.nodes))
		for i, n := range d.nodes {
			last := -1
			if len(n.Content) != 0 {
				last = d.index[n.Content[len(n.Content)-1]]
			}
			pw := []int{}
			if n.Kind == yaml.ScalarNode && (n.Style == 0 || n.Style == yaml.FlowStyle) {
				pw = c19PrefixWidths(n.Value)
			}
			nodes[i] = map[string]any{"line": n.Line, "col": n.Column, "kind": int(n.Kind), "style": int(n.Style),
				"tag": hex.EncodeToString([]byte(n.Tag)), "value": hex.EncodeToString([]byte(n.Value)), "last": last,
				"anch": n.Anchor != "", "pw": pw}
		}
		docs = append(docs, map[string]any{"name": name, "yaml_ok": d.root != nil, "nodes": nodes, "segs": c19Segs(d.src)})
	}
	// drop exact duplicates (the same range is reachable along many paths), keep the first occurrence's order
	seen := map[string]bool{}
	uniq := []map[string]any{}
	for _, r := range out.ranges {
		b, e := r["b"].([]int), r["e"].([]int)
		key := r["what"].(string) + "|" + r["env"].(string) + "|" + string(rune(r["node"].(int)+1)) + "|" +
			string([]rune{rune(b[0]), rune(b[1]), rune(b[2]), rune(e[0]), rune(e[1]), rune(e[2])})
		if seen[key] {
			continue
		}
		seen[key] = true
		uniq = append(uniq, r)
	}
	return map[string]any{"docs": docs, "ranges": uniq, "status": status}
}
