package main

// C14 — read-modify-write commands never lose a concurrent update.
//
// One case = a prior history (definitions pushed one after the other), 2..3 commands of the REAL CLI
// (`esc env set`, `esc env rm <path>`, interactive `esc env edit`, and the blind writer `esc env edit --file -`)
// run concurrently in-process through cli.New + the real HTTP client, against a scripted fake ESC backend
// (httptest.Server) that stores (definition, revision, etag), enforces the tag contract of the service
// (an update succeeds iff it carries no tag or the tag of the current revision; 409 otherwise) and *gates*
// every GET / PATCH so that the requests are served in exactly the order given by the case's schedule.
//
// Schedule: a list of slots, each a command index `i` or a pair `[i, fault]`.  The k-th slot of command i serves the
// k-th request of command i WHATEVER it is (so a schedule can also place other commands' requests between requests
// the unchanged code does not make: a second read, a re-sent update); slots of a command that has ended are skipped;
// a request for which the schedule has no slot left is served after the whole schedule (and reported as `extra`).
// Faults (they apply if the request served at the slot is a PATCH, and are ignored on a GET):
//
//	lost    process the update as usual (commit iff the tag rule accepts it), then answer 500
//	drop    process the update as usual, then close the connection without answering
//	reject  commit nothing and answer 400 with diagnostics (the service's "the definition has errors" reply)
//
// Observation (projection): the request log as seen by the backend (who, GET/PATCH, the tag returned/sent as a
// revision number, committed or not, the fault, definition before / body / after as canonical trees), each command's
// exit status (ok / conflict / err / panic), the final stored definition and revision.  No texts, no timings.

import (
	"context"
	"errors"
	"fmt"
	"io"
	"net/http"
	"net/http/httptest"
	"os"
	"sort"
	"strconv"
	"strings"
	"sync"
	"time"

	"github.com/pulumi/esc/cmd/esc/cli"
	"github.com/pulumi/esc/cmd/esc/cli/client"
	"github.com/pulumi/pulumi/pkg/v3/backend/display"
	"github.com/pulumi/pulumi/sdk/v3/go/common/apitype"
	"github.com/pulumi/pulumi/sdk/v3/go/common/diag/colors"
	"github.com/pulumi/pulumi/sdk/v3/go/common/workspace"
	"gopkg.in/yaml.v3"
)

func init() { register("C14", c14) }

// the name of the header the service reads the update's tag from (service contract; deliberately NOT taken
// from the client's source: srcfacts reads the client's constant and Properties/C14.v compares)
const c14TagHeader = "ETag"
const c14RevHeader = "Pulumi-ESC-Revision"

// the "human in the editor" of the interactive `env edit`: a shell script the command execs as
//
//	ed.sh set <key> <value> <file>   sets values.<key> to <value> by editing the text of the YAML document
//	                                  (block style with any indentation, or `values: {...}` in flow style on one
//	                                  line as yaml.v3 re-emits a once-empty mapping), leaving what follows a
//	                                  `---` line alone
//	ed.sh abort <file>               empties the file
const c14EditorScript = `#!/bin/sh
mode="$1"
if [ "$mode" = abort ]; then : > "$2"; exit 0; fi
[ "$mode" = set ] || exit 2
key="$2"; val="$3"; file="$4"
awk -v K="$key" -v V="$val" '
function emit() { if (!done) { if (!seen) print "values:"; if (ind == "") ind = "  "; print ind K ": " V; done = 1 } }
function flowset(body,    i, c, depth, items, n, cur, out) {
  n = 0; cur = ""; depth = 0
  for (i = 1; i <= length(body); i++) {
    c = substr(body, i, 1)
    if (c == "{") depth++
    if (c == "}") depth--
    if (c == "," && depth == 0) { items[++n] = cur; cur = "" } else cur = cur c
  }
  if (cur ~ /[^ ]/) items[++n] = cur
  out = ""
  for (i = 1; i <= n; i++) {
    sub(/^ +/, "", items[i])
    if (index(items[i], K ":") != 1) out = out (out == "" ? "" : ", ") items[i]
  }
  return "{" out (out == "" ? "" : ", ") K ": " V "}"
}
rest { print; next }
$0 == "---" { emit(); rest = 1; print; next }
/^values: *[{].*[}] *$/ {
  seen = 1; done = 1; body = $0
  sub(/^values: *[{]/, "", body); sub(/[}] *$/, "", body)
  print "values: " flowset(body); next
}
/^values:/ { seen = 1; inv = 1; print "values:"; next }
inv && /^[ ]/ {
  match($0, /^ +/); cur = substr($0, 1, RLENGTH)
  if (ind == "") ind = cur
  if (cur == ind) { skipping = (index($0, ind K ":") == 1) }
  if (skipping) next
  print; next
}
inv && /^[^ ]/ { emit(); inv = 0; print; next }
{ print }
END { if (!rest) emit() }
' "$file" > "$file.new" && cat "$file.new" > "$file" && rm -f "$file.new"
`

// ------------------------------------------------------------------------------------------------
// canonical tree of a YAML definition: nil (empty document / null) | string (scalar text) | map[string]any.
// Anything else (sequences, aliases, several documents) is reported as the string marker "\x00unsupported".
func c14Tree(def []byte) any {
	var n yaml.Node
	if err := yaml.Unmarshal(def, &n); err != nil {
		return "\x00unparsable"
	}
	if n.Kind == 0 {
		return nil
	}
	return c14NodeTree(&n)
}

func c14NodeTree(n *yaml.Node) any {
	switch n.Kind {
	case yaml.DocumentNode:
		if len(n.Content) != 1 {
			return "\x00unsupported"
		}
		return c14NodeTree(n.Content[0])
	case yaml.ScalarNode:
		if n.Tag == "!!null" {
			return nil
		}
		return n.Value
	case yaml.MappingNode:
		m := map[string]any{}
		for i := 0; i+1 < len(n.Content); i += 2 {
			if n.Content[i].Kind != yaml.ScalarNode {
				return "\x00unsupported"
			}
			if _, dup := m[n.Content[i].Value]; dup {
				return "\x00unsupported"
			}
			m[n.Content[i].Value] = c14NodeTree(n.Content[i+1])
		}
		return m
	default:
		return "\x00unsupported"
	}
}

// ------------------------------------------------------------------------------------------------
// the gated fake backend
type c14Step struct {
	cmd   int
	fault string // "none" | "lost" | "drop" | "reject"
}

type c14Backend struct {
	mu   sync.Mutex
	cond *sync.Cond

	def   []byte
	rev   int
	etags map[string]int // etag -> revision it names
	weak  bool           // issue weak validators (W/"..."), as a compressing proxy in front of the service does

	sched []c14Step
	pos   int
	done  []bool
	stuck bool

	reqs  []map[string]any
	extra []string
}

func (b *c14Backend) etag() string {
	// opaque, unique per revision, different from the revision number
	t := fmt.Sprintf("\"c14-%d-%d\"", b.rev*7+3, len(b.def))
	if b.weak {
		t = "W/" + t
	}
	b.etags[t] = b.rev
	return t
}

// wait until the schedule says it is cmd's turn; returns the fault of the slot.  gated = false: the schedule has no
// slot left for this command (the request is served after the whole schedule) or the case is stuck.
// Must be called with b.mu held.
func (b *c14Backend) await(cmd int) (fault string, gated bool) {
	deadline := time.Now().Add(20 * time.Second)
	for {
		for b.pos < len(b.sched) && b.done[b.sched[b.pos].cmd] {
			b.pos++ // the command ended without making this request
		}
		if b.pos < len(b.sched) && b.sched[b.pos].cmd == cmd {
			f := b.sched[b.pos].fault
			b.pos++
			return f, true
		}
		mine := false
		for _, s := range b.sched[b.pos:] {
			if s.cmd == cmd {
				mine = true
			}
		}
		if !mine && b.pos >= len(b.sched) {
			return "none", false
		}
		if b.stuck || time.Now().After(deadline) {
			b.stuck = true
			b.cond.Broadcast()
			return "none", false
		}
		b.cond.Wait()
	}
}

func (b *c14Backend) finished(cmd int) {
	b.mu.Lock()
	b.done[cmd] = true
	b.cond.Broadcast()
	b.mu.Unlock()
}

func c14CmdOf(r *http.Request) int {
	ua := r.Header.Get("User-Agent")
	if !strings.HasPrefix(ua, "c14-cmd-") {
		return -1
	}
	n, err := strconv.Atoi(strings.TrimPrefix(ua, "c14-cmd-"))
	if err != nil {
		return -1
	}
	return n
}

const c14EnvPath = "/api/esc/environments/org/proj/env"

func (b *c14Backend) ServeHTTP(w http.ResponseWriter, r *http.Request) {
	cmd := c14CmdOf(r)
	body, _ := io.ReadAll(r.Body)
	b.mu.Lock()
	defer b.mu.Unlock()
	isGet := r.Method == http.MethodGet && (r.URL.Path == c14EnvPath || r.URL.Path == c14EnvPath+"/decrypt")
	switch {
	case isGet && cmd >= 0 && cmd < len(b.done):
		if _, gated := b.await(cmd); !gated {
			b.extra = append(b.extra, fmt.Sprintf("ungated get %d", cmd))
		}
		b.reqs = append(b.reqs, map[string]any{"cmd": cmd, "kind": "get", "tag": b.rev, "def": c14Tree(b.def),
			"dec": r.URL.Path != c14EnvPath})
		w.Header().Set("ETag", b.etag())
		w.Header().Set(c14RevHeader, strconv.Itoa(b.rev))
		w.Header().Set("Content-Type", "application/x-yaml")
		w.WriteHeader(200)
		w.Write(b.def)
		b.cond.Broadcast()
	case r.Method == http.MethodPatch && r.URL.Path == c14EnvPath && cmd >= 0 && cmd < len(b.done):
		fault, gated := b.await(cmd)
		if !gated {
			b.extra = append(b.extra, fmt.Sprintf("ungated patch %d", cmd))
		}
		tag := -1 // no tag
		if vs, ok := r.Header[http.CanonicalHeaderKey(c14TagHeader)]; ok && len(vs) > 0 && vs[0] != "" {
			if n, ok := b.etags[vs[0]]; ok {
				tag = n
			} else {
				tag = -2 // a tag this backend never issued
			}
		}
		e := map[string]any{"cmd": cmd, "kind": "patch", "tag": tag, "before": c14Tree(b.def), "brev": b.rev,
			"body": c14Tree(body), "fault": fault}
		status, reply := 0, ""
		switch {
		case fault == "reject":
			e["status"] = "rejected"
			status, reply = 400, `{"code":400,"message":"the definition has errors","diagnostics":[{"summary":"c14: scripted diagnostic"}]}`
		case tag == -1 || tag == b.rev:
			b.def = body
			b.rev++
			e["status"] = "ok"
			status = 200
		default:
			e["status"] = "conflict"
			status, reply = 409, `{"code":409,"message":"Conflict: the environment has changed since it was read"}`
		}
		e["after"] = c14Tree(b.def)
		e["arev"] = b.rev
		b.reqs = append(b.reqs, e)
		b.cond.Broadcast()
		switch fault {
		case "lost":
			w.Header().Set("Content-Type", "application/json")
			w.WriteHeader(500)
			w.Write([]byte(`{"code":500,"message":"internal server error"}`))
		case "drop":
			if hj, ok := w.(http.Hijacker); ok {
				if conn, _, err := hj.Hijack(); err == nil {
					conn.Close()
					return
				}
			}
			panic(http.ErrAbortHandler)
		default:
			if status == 200 {
				w.Header().Set(c14RevHeader, strconv.Itoa(b.rev))
			} else {
				w.Header().Set("Content-Type", "application/json")
			}
			w.WriteHeader(status)
			w.Write([]byte(reply))
		}
	case r.Method == http.MethodPost && r.URL.Path == "/api/esc/environments/org/yaml/check":
		// `env edit` asks for the evaluated environment to show it below the definition; not part of the protocol
		w.Header().Set("Content-Type", "application/json")
		w.WriteHeader(200)
		w.Write([]byte(`{}`))
	default:
		b.extra = append(b.extra, r.Method+" "+r.URL.Path)
		w.WriteHeader(404)
		w.Write([]byte(`{"code":404,"message":"not found"}`))
	}
}

// ------------------------------------------------------------------------------------------------
// login against the fake (the exported hooks of cli.Options)
type c14Login struct{ acct workspace.Account }

func (l *c14Login) Current(ctx context.Context, cloudURL string, insecure, setCurrent bool) (*workspace.Account, error) {
	a := l.acct
	return &a, nil
}

func (l *c14Login) Login(ctx context.Context, cloudURL string, insecure bool, command, message string,
	welcome func(display.Options), current bool, opts display.Options) (*workspace.Account, error) {
	a := l.acct
	return &a, nil
}

type c14Workspace struct {
	url  string
	acct workspace.Account
	dir  string
}

func (w *c14Workspace) DeleteAccount(backendURL string) error                          { return nil }
func (w *c14Workspace) DeleteAllAccounts() error                                       { return nil }
func (w *c14Workspace) SetBackendConfigDefaultOrg(backendURL, defaultOrg string) error { return nil }
func (w *c14Workspace) GetPulumiConfig() (workspace.PulumiConfig, error) {
	return workspace.PulumiConfig{}, nil
}
func (w *c14Workspace) GetPulumiPath(elem ...string) (string, error) {
	return w.dir + "/" + strings.Join(elem, "/"), nil
}
func (w *c14Workspace) GetStoredCredentials() (workspace.Credentials, error) {
	return workspace.Credentials{Current: w.url, Accounts: map[string]workspace.Account{w.url: w.acct}}, nil
}
func (w *c14Workspace) StoreAccount(key string, account workspace.Account, current bool) error {
	return nil
}
func (w *c14Workspace) GetAccount(key string) (workspace.Account, error) { return w.acct, nil }

// ------------------------------------------------------------------------------------------------
func c14Status(err error) string {
	if err == nil {
		return "ok"
	}
	var ee *client.EnvironmentErrorResponse
	if errors.As(err, &ee) {
		if ee.Code == http.StatusConflict {
			return "conflict"
		}
		return "err"
	}
	var ae *apitype.ErrorResponse
	if errors.As(err, &ae) && ae.Code == http.StatusConflict {
		return "conflict"
	}
	return "err"
}

func c14(c map[string]any) map[string]any {
	hist, _ := c["hist"].([]any)
	ops, _ := c["ops"].([]any)
	schedRaw, _ := c["sched"].([]any)
	if len(ops) == 0 || len(ops) > 4 {
		return map[string]any{"res": "badcase"}
	}

	b := &c14Backend{etags: map[string]int{}, done: make([]bool, len(ops))}
	b.weak, _ = c["weak"].(bool)
	b.cond = sync.NewCond(&b.mu)
	// prior history: revision 1 is the freshly created (empty) environment, every entry is one more revision
	b.rev = 1
	for _, h := range hist {
		s, _ := h.(string)
		b.def = []byte(s)
		b.rev++
	}

	dir, err := os.MkdirTemp("", "c14-ws-")
	if err != nil {
		return map[string]any{"res": "notmp"}
	}
	defer os.RemoveAll(dir)
	editor := dir + "/ed.sh"
	if err := os.WriteFile(editor, []byte(c14EditorScript), 0o700); err != nil {
		return map[string]any{"res": "notmp"}
	}

	type spec struct {
		args   []string
		stdin  string
		enters int // interactive edit: ENTER presses waiting on its terminal
	}
	specs := make([]spec, len(ops))
	for i, o := range ops {
		m, _ := o.(map[string]any)
		switch str(m, "k") {
		case "set":
			specs[i] = spec{args: []string{"env", "set", "org/proj/env", str(m, "path"), str(m, "val")}}
		case "rm":
			specs[i] = spec{args: []string{"env", "rm", "org/proj/env", str(m, "path")}}
		case "edit":
			ed := fmt.Sprintf("%s set %s %s", editor, str(m, "key"), str(m, "val"))
			// the person has `enters` ENTER presses for "Press ENTER to continue editing or ^D to exit"
			enters := 0
			if v, ok := m["enters"]; ok {
				if n, err := strconv.Atoi(fmt.Sprint(v)); err == nil && n >= 0 && n <= 8 {
					enters = n
				}
			}
			specs[i] = spec{args: []string{"env", "edit", "org/proj/env", "--editor", ed}, enters: enters}
			if sec, _ := m["secrets"].(bool); sec {
				specs[i].args = append(specs[i].args, "--show-secrets")
			}
		case "abort":
			ed := fmt.Sprintf("%s abort", editor)
			specs[i] = spec{args: []string{"env", "edit", "org/proj/env", "--editor", ed}}
		case "file":
			specs[i] = spec{args: []string{"env", "edit", "org/proj/env", "--file", "-"}, stdin: str(m, "yaml")}
		default:
			return map[string]any{"res": "badop"}
		}
	}
	// schedule: the k-th slot of command i serves its k-th request; a slot is `i` or `[i, fault]`
	for _, x := range schedRaw {
		fault := "none"
		if pair, ok := x.([]any); ok {
			if len(pair) != 2 {
				return map[string]any{"res": "badsched"}
			}
			x = pair[0]
			fault, _ = pair[1].(string)
		}
		switch fault {
		case "none", "lost", "drop", "reject":
		default:
			return map[string]any{"res": "badsched"}
		}
		n, err := strconv.Atoi(fmt.Sprint(x))
		if err != nil || n < 0 || n >= len(ops) {
			return map[string]any{"res": "badsched"}
		}
		b.sched = append(b.sched, c14Step{n, fault})
	}

	srv := httptest.NewServer(b)
	defer srv.Close()

	acct := workspace.Account{Username: "org", AccessToken: "c14-token"}
	out := make([]string, len(ops))
	var wg sync.WaitGroup
	for i := range specs {
		wg.Add(1)
		go func(i int) {
			defer wg.Done()
			defer b.finished(i)
			defer func() {
				if r := recover(); r != nil {
					out[i] = "panic"
				}
			}()
			// the interactive edit hands its stdin to the editor process (cmd.Stdin = esc.stdin): with anything but an
			// *os.File os/exec would drain it into the child, so the "terminal" is a pipe holding the ENTER presses
			var stdin io.Reader = strings.NewReader(specs[i].stdin)
			if specs[i].enters > 0 {
				pr, pw, err := os.Pipe()
				if err != nil {
					out[i] = "other"
					return
				}
				defer pr.Close()
				pw.Write([]byte(strings.Repeat("\n", specs[i].enters)))
				pw.Close()
				stdin = pr
			}
			root := cli.New(&cli.Options{
				UserAgent:       fmt.Sprintf("c14-cmd-%d", i),
				Stdin:           stdin,
				Stdout:          io.Discard,
				Stderr:          io.Discard,
				Colors:          colors.Never,
				Login:           &c14Login{acct: acct},
				PulumiWorkspace: &c14Workspace{url: srv.URL, acct: acct, dir: dir},
			})
			root.SetArgs(specs[i].args)
			root.SetOut(io.Discard)
			root.SetErr(io.Discard)
			root.SilenceErrors = true
			root.SilenceUsage = true
			out[i] = c14Status(root.Execute())
		}(i)
	}
	finished := make(chan struct{})
	go func() { wg.Wait(); close(finished) }()
	select {
	case <-finished:
	case <-time.After(60 * time.Second):
		b.mu.Lock()
		b.stuck = true
		b.cond.Broadcast()
		b.mu.Unlock()
		<-finished
	}

	b.mu.Lock()
	defer b.mu.Unlock()
	sort.Strings(b.extra)
	reqs := make([]any, len(b.reqs))
	for i, r := range b.reqs {
		reqs[i] = r
	}
	outs := make([]any, len(out))
	for i, o := range out {
		outs[i] = o
	}
	return map[string]any{"res": "ran", "reqs": reqs, "out": outs, "final": c14Tree(b.def), "frev": b.rev,
		"extra": b.extra, "stuck": b.stuck}
}
