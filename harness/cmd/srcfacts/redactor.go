package main

import (
	"go/ast"
	"go/constant"
	"go/token"
	"strconv"
)

// cmd/esc/cli/env_run.go: the short-secret threshold of newReplacer and the placeholder written by the redactor.
func init() {
	extraModules = append(extraModules, module{"SrcRedactor", srcRedactor})
}

func srcRedactor(f *facts, o *out) {
	const rel = "cmd/esc/cli/env_run.go"

	// threshold: the first `if len(x) >= K` / `if len(x) > K` inside newReplacer
	threshold := ""
	if fd := f.funcDecl(rel, "newReplacer"); fd != nil && fd.Body != nil {
		ast.Inspect(fd.Body, func(n ast.Node) bool {
			if threshold != "" {
				return false
			}
			is, ok := n.(*ast.IfStmt)
			if !ok {
				return true
			}
			be, ok := is.Cond.(*ast.BinaryExpr)
			if !ok {
				return true
			}
			call, ok := be.X.(*ast.CallExpr)
			if !ok {
				return true
			}
			if id, ok := call.Fun.(*ast.Ident); !ok || id.Name != "len" {
				return true
			}
			v, ok := litValue(be.Y)
			if !ok || v.Kind() != constant.Int {
				return true
			}
			k, err := strconv.Atoi(v.ExactString())
			if err != nil {
				return true
			}
			switch be.Op {
			case token.GEQ:
				threshold = strconv.Itoa(k)
			case token.GTR:
				threshold = strconv.Itoa(k + 1)
			}
			return true
		})
	}
	if threshold != "" {
		o.add("Definition min_secret_len : N := %s.", threshold)
		f.status["min_secret_len"] = "ok"
	} else {
		o.add("Definition min_secret_len : N := 3. (* default *)")
		f.status["min_secret_len"] = "unrecognised"
	}

	// placeholder: either the constant secretPlaceholder, or the string literal returned by the callbacks
	// handed to ReplaceAllFunc in redactor.Write and redactor.Close (all of them must agree)
	placeholder, found, agree := "", false, true
	note := func(s string) {
		if found && s != placeholder {
			agree = false
		}
		placeholder, found = s, true
	}
	if v, ok := litValue(f.constExpr(rel, "secretPlaceholder")); ok && v.Kind() == constant.String {
		note(constant.StringVal(v))
	} else if a := f.file(rel); a != nil {
		for _, d := range a.Decls {
			fd, ok := d.(*ast.FuncDecl)
			if !ok || fd.Recv == nil || fd.Body == nil || (fd.Name.Name != "Write" && fd.Name.Name != "Close") {
				continue
			}
			ast.Inspect(fd.Body, func(n ast.Node) bool {
				fl, ok := n.(*ast.FuncLit)
				if !ok {
					return true
				}
				ast.Inspect(fl.Body, func(m ast.Node) bool {
					rs, ok := m.(*ast.ReturnStmt)
					if !ok || len(rs.Results) == 0 {
						return true
					}
					if v, ok := litValue(rs.Results[0]); ok && v.Kind() == constant.String {
						note(constant.StringVal(v))
					}
					return true
				})
				return false
			})
		}
	}
	if found && agree {
		o.add("Definition secret_placeholder : string := %s.", coqString(placeholder))
		f.status["secret_placeholder"] = "ok"
	} else {
		o.add("Definition secret_placeholder : string := %s. (* default *)", coqString("[secret]"))
		f.status["secret_placeholder"] = "unrecognised"
	}

	// secrets of interpolated arguments: `if val.Secret { secrets = append(secrets, ...) }` (the value's own flag only)
	// or a call of appendSecrets (the value and everything nested in it), inside newEnvRunCmd
	flat, deep := false, false
	if fd := f.funcDecl(rel, "newEnvRunCmd"); fd != nil && fd.Body != nil {
		ast.Inspect(fd.Body, func(n ast.Node) bool {
			switch x := n.(type) {
			case *ast.CallExpr:
				if id, ok := x.Fun.(*ast.Ident); ok && id.Name == "appendSecrets" {
					deep = true
				}
			case *ast.IfStmt:
				if sel, ok := x.Cond.(*ast.SelectorExpr); ok && sel.Sel.Name == "Secret" {
					ast.Inspect(x.Body, func(m ast.Node) bool {
						if as, ok := m.(*ast.AssignStmt); ok && len(as.Lhs) == 1 && len(as.Rhs) == 1 {
							if id, ok := as.Lhs[0].(*ast.Ident); ok && id.Name == "secrets" {
								if call, ok := as.Rhs[0].(*ast.CallExpr); ok {
									if fn, ok := call.Fun.(*ast.Ident); ok && fn.Name == "append" {
										flat = true
									}
								}
							}
						}
						return true
					})
				}
			}
			return true
		})
	}
	switch {
	case deep && !flat:
		o.add("Definition arg_secrets_deep : bool := true.")
		f.status["arg_secrets_deep"] = "ok"
	case flat && !deep:
		o.add("Definition arg_secrets_deep : bool := false.")
		f.status["arg_secrets_deep"] = "ok"
	default:
		o.add("Definition arg_secrets_deep : bool := true. (* default *)")
		f.status["arg_secrets_deep"] = "unrecognised"
	}
	// lifecycle of the two redactors in RunE: every variable assigned from newRedactor(...) must be closed by a
	// deferred call (`defer contract.IgnoreClose(x)` or `defer x.Close()`), i.e. on every path out of RunE, whatever
	// exec.Run returns.  Redactors that exist but are not all closed by defer => false (Close reached on some paths only).
	redactors := map[string]bool{}
	deferred := map[string]bool{}
	if fd := f.funcDecl(rel, "newEnvRunCmd"); fd != nil && fd.Body != nil {
		ast.Inspect(fd.Body, func(n ast.Node) bool {
			switch x := n.(type) {
			case *ast.AssignStmt:
				// a, b := newRedactor(..), newRedactor(..)   or   a := newRedactor(..)
				if len(x.Lhs) == len(x.Rhs) {
					for i, r := range x.Rhs {
						if call, ok := r.(*ast.CallExpr); ok {
							if fn, ok := call.Fun.(*ast.Ident); ok && fn.Name == "newRedactor" {
								if id, ok := x.Lhs[i].(*ast.Ident); ok {
									redactors[id.Name] = true
								}
							}
						}
					}
				}
			case *ast.DeferStmt:
				if sel, ok := x.Call.Fun.(*ast.SelectorExpr); ok {
					if sel.Sel.Name == "IgnoreClose" && len(x.Call.Args) == 1 {
						if id, ok := x.Call.Args[0].(*ast.Ident); ok {
							deferred[id.Name] = true
						}
					}
					if sel.Sel.Name == "Close" && len(x.Call.Args) == 0 {
						if id, ok := sel.X.(*ast.Ident); ok {
							deferred[id.Name] = true
						}
					}
				}
			}
			return true
		})
	}
	switch {
	case len(redactors) == 0:
		o.add("Definition redactors_closed_on_every_path : bool := true. (* default *)")
		f.status["redactors_closed_on_every_path"] = "unrecognised"
	default:
		all := true
		for name := range redactors {
			if !deferred[name] {
				all = false
			}
		}
		if all {
			o.add("Definition redactors_closed_on_every_path : bool := true.")
		} else {
			o.add("Definition redactors_closed_on_every_path : bool := false.")
		}
		f.status["redactors_closed_on_every_path"] = "ok"
	}
}
