package main

// Facts for property C16 (temporary files of `esc run`), written to coq/Src/SrcTempFiles.v:
//   - the arguments of fs.CreateTemp and the placeholder path used when pretending (data),
//   - four yes/no facts about the shape of the clean-up code in cmd/esc/cli/prepare.go and env_run.go.
// A shape that is not recognised is reported as "unrecognised" and the committed default is written.

import (
	"go/ast"
	"go/constant"
	"go/token"
)

func init() { extraModules = append(extraModules, module{"SrcTempFiles", srcTempFiles}) }

// callName returns "recv.Name" / "Name" of a call's function expression.
func callName(c *ast.CallExpr) (recv, name string) {
	switch f := c.Fun.(type) {
	case *ast.Ident:
		return "", f.Name
	case *ast.SelectorExpr:
		name = f.Sel.Name
		switch x := f.X.(type) {
		case *ast.Ident:
			recv = x.Name
		case *ast.SelectorExpr:
			recv = x.Sel.Name
		}
	}
	return recv, name
}

func identName(e ast.Expr) string {
	if id, ok := e.(*ast.Ident); ok {
		return id.Name
	}
	return ""
}

func hasReturn(n ast.Node) bool {
	found := false
	ast.Inspect(n, func(m ast.Node) bool {
		if _, ok := m.(*ast.FuncLit); ok {
			return false
		}
		if _, ok := m.(*ast.ReturnStmt); ok {
			found = true
		}
		return !found
	})
	return found
}

func srcTempFiles(f *facts, o *out) {
	const prep = "cmd/esc/cli/prepare.go"
	const run = "cmd/esc/cli/env_run.go"

	boolFact := func(name string, val, ok bool, def bool) {
		if ok {
			o.add("Definition %s : bool := %v.", name, val)
			f.status[name] = "ok"
		} else {
			o.add("Definition %s : bool := %v. (* default *)", name, def)
			f.status[name] = "unrecognised"
		}
	}
	strFact := func(name, val string, ok bool, def string) {
		if ok {
			o.add("Definition %s : string := %s.", name, coqString(val))
			f.status[name] = "ok"
		} else {
			o.add("Definition %s : string := %s. (* default *)", name, coqString(def))
			f.status[name] = "unrecognised"
		}
	}

	// ---- createTemporaryFile ---------------------------------------------------------------------
	var dir, pattern, fileVar, handleVar string
	dirOK := false
	removeOnFail, removeOK := false, false
	closeChecked, closeOK := false, false
	if fd := f.funcDecl(prep, "createTemporaryFile"); fd != nil && fd.Body != nil {
		removeOK = true
		ast.Inspect(fd.Body, func(n ast.Node) bool {
			as, ok := n.(*ast.AssignStmt)
			if !ok || len(as.Rhs) != 1 || fileVar != "" {
				return true
			}
			call, ok := as.Rhs[0].(*ast.CallExpr)
			if !ok {
				return true
			}
			if _, name := callName(call); name == "CreateTemp" && len(call.Args) == 2 && len(as.Lhs) == 3 {
				fileVar, handleVar = identName(as.Lhs[0]), identName(as.Lhs[1])
				d, ok1 := litValue(call.Args[0])
				p, ok2 := litValue(call.Args[1])
				if ok1 && ok2 && d.Kind() == constant.String && p.Kind() == constant.String {
					dir, pattern, dirOK = constant.StringVal(d), constant.StringVal(p), true
				}
			}
			return true
		})
		// an `if` whose body returns and calls <fs>.Remove(<fileVar>)
		ast.Inspect(fd.Body, func(n ast.Node) bool {
			is, ok := n.(*ast.IfStmt)
			if !ok {
				return true
			}
			if !hasReturn(is.Body) {
				return true
			}
			ast.Inspect(is.Body, func(m ast.Node) bool {
				if call, ok := m.(*ast.CallExpr); ok {
					if _, name := callName(call); name == "Remove" && len(call.Args) == 1 &&
						fileVar != "" && identName(call.Args[0]) == fileVar {
						removeOnFail = true
					}
				}
				return true
			})
			return true
		})
		// Close: `defer contract.IgnoreClose(f)` (error dropped) or `x := f.Close()` (error used)
		deferredIgnore, closeUsed := false, false
		ast.Inspect(fd.Body, func(n ast.Node) bool {
			switch s := n.(type) {
			case *ast.DeferStmt:
				if _, name := callName(s.Call); name == "IgnoreClose" {
					deferredIgnore = true
				}
			case *ast.AssignStmt:
				for _, r := range s.Rhs {
					if call, ok := r.(*ast.CallExpr); ok {
						if recv, name := callName(call); name == "Close" && recv == handleVar && handleVar != "" {
							closeUsed = true
						}
					}
				}
			}
			return true
		})
		switch {
		case deferredIgnore && !closeUsed:
			closeChecked, closeOK = false, true
		case closeUsed && !deferredIgnore:
			closeChecked, closeOK = true, true
		}
	}
	strFact("src_temp_dir", dir, dirOK, "")
	strFact("src_temp_pattern", pattern, dirOK, "esc-*")
	boolFact("src_remove_on_write_fail", removeOnFail, removeOK, true)
	boolFact("src_close_checked", closeChecked, closeOK, false)

	// ---- createTemporaryFiles: `if err != nil { removeTemporaryFiles(_, paths); return ... }` and "[unknown]" ----
	rollback, rollbackOK := false, false
	unknown, unknownOK := "", false
	if fd := f.funcDecl(prep, "createTemporaryFiles"); fd != nil && fd.Body != nil {
		rollbackOK = true
		pathsVar := ""
		if fd.Type.Results != nil && len(fd.Type.Results.List) > 0 && len(fd.Type.Results.List[0].Names) > 0 {
			pathsVar = fd.Type.Results.List[0].Names[0].Name
		}
		ast.Inspect(fd.Body, func(n ast.Node) bool {
			switch s := n.(type) {
			case *ast.IfStmt:
				be, ok := s.Cond.(*ast.BinaryExpr)
				if !ok || be.Op != token.NEQ || identName(be.X) != "err" || identName(be.Y) != "nil" || !hasReturn(s.Body) {
					return true
				}
				for _, st := range s.Body.List {
					if es, ok := st.(*ast.ExprStmt); ok {
						if call, ok := es.X.(*ast.CallExpr); ok {
							if _, name := callName(call); name == "removeTemporaryFiles" && len(call.Args) == 2 &&
								identName(call.Args[1]) == pathsVar && pathsVar != "" {
								rollback = true
							}
						}
					}
				}
			case *ast.AssignStmt:
				if s.Tok == token.DEFINE && len(s.Lhs) == 1 && identName(s.Lhs[0]) == "path" && len(s.Rhs) == 1 {
					if v, ok := litValue(s.Rhs[0]); ok && v.Kind() == constant.String {
						unknown, unknownOK = constant.StringVal(v), true
					}
				}
			}
			return true
		})
	}
	boolFact("src_rollback", rollback, rollbackOK, true)
	strFact("src_unknown_path", unknown, unknownOK, "[unknown]")

	// ---- RunE of `esc run`: files, ... := envcmd.prepareEnvironment(...); if err != nil {return}; defer
	//      envcmd.removeTemporaryFiles(files) — before anything else can return ----
	deferCleanup, deferOK := false, false
	if fd := f.funcDecl(run, "newEnvRunCmd"); fd != nil && fd.Body != nil {
		ast.Inspect(fd.Body, func(n ast.Node) bool {
			blk, ok := n.(*ast.BlockStmt)
			if !ok {
				return true
			}
			for i, st := range blk.List {
				as, ok := st.(*ast.AssignStmt)
				if !ok || len(as.Rhs) != 1 || len(as.Lhs) < 1 {
					continue
				}
				call, ok := as.Rhs[0].(*ast.CallExpr)
				if !ok {
					continue
				}
				if _, name := callName(call); name != "prepareEnvironment" {
					continue
				}
				deferOK = true
				filesVar := identName(as.Lhs[0])
				// the statements that follow: optionally `if err != nil { return err }`, then the defer
				for _, nx := range blk.List[i+1:] {
					if is, ok := nx.(*ast.IfStmt); ok {
						be, ok := is.Cond.(*ast.BinaryExpr)
						if ok && be.Op == token.NEQ && identName(be.X) == "err" && identName(be.Y) == "nil" {
							continue
						}
						break
					}
					if ds, ok := nx.(*ast.DeferStmt); ok {
						if _, name := callName(ds.Call); name == "removeTemporaryFiles" && len(ds.Call.Args) == 1 &&
							identName(ds.Call.Args[0]) == filesVar && filesVar != "_" && filesVar != "" {
							deferCleanup = true
						}
					}
					break
				}
			}
			return true
		})
	}
	boolFact("src_defer_cleanup", deferCleanup, deferOK, true)

	// ---- PrepareEnvironment: once createTemporaryFiles has succeeded nothing may fail any more (the caller gets
	//      the paths only from the final return; an error return after that point would orphan the files):
	//      filePaths, ... := createTemporaryFiles(...); if err != nil { return }; <no further return>; return ..., nil
	noLate, noLateOK := false, false
	if fd := f.funcDecl(prep, "PrepareEnvironment"); fd != nil && fd.Body != nil {
		list := fd.Body.List
		for i, st := range list {
			as, ok := st.(*ast.AssignStmt)
			if !ok || len(as.Rhs) != 1 {
				continue
			}
			call, ok := as.Rhs[0].(*ast.CallExpr)
			if !ok {
				continue
			}
			if _, name := callName(call); name != "createTemporaryFiles" {
				continue
			}
			noLateOK, noLate = true, true
			rest := list[i+1:]
			if len(rest) > 0 {
				if is, ok := rest[0].(*ast.IfStmt); ok {
					be, ok := is.Cond.(*ast.BinaryExpr)
					if ok && be.Op == token.NEQ && identName(be.X) == "err" && identName(be.Y) == "nil" && is.Init == nil {
						rest = rest[1:]
					}
				}
			}
			for j, nx := range rest {
				if rs, ok := nx.(*ast.ReturnStmt); ok && j == len(rest)-1 {
					if n := len(rs.Results); n == 0 || identName(rs.Results[n-1]) != "nil" {
						noLate = false
					}
					continue
				}
				if hasReturn(nx) {
					noLate = false
				}
			}
		}
	}
	boolFact("src_prepare_no_late_error", noLate, noLateOK, true)
}
