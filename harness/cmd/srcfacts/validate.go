package main

// Facts read from eval/eval_validate.go and eval/eval.go for C08 (coq/Src/SrcValidate.v):
//   strlen_min_chars / strlen_max_chars : does validateString measure the string for minLength / maxLength with
//       utf8.RuneCountInString (true) or with len (false: bytes)?
//   never_reports : does the `if accept.Never { ... }` branch of validateElement call errorf?
//   gate_fallback : does evaluateTypedExpr report a rejection that came without any error diagnostic
//       (an if whose condition mentions !ok and HasErrors and whose body calls errorf)?

import (
	"go/ast"
	"go/token"
)

func init() {
	extraModules = append(extraModules, module{name: "SrcValidate", fn: srcValidate})
}

func callsMethod(n ast.Node, name string) bool {
	found := false
	ast.Inspect(n, func(x ast.Node) bool {
		if c, ok := x.(*ast.CallExpr); ok {
			if s, ok := c.Fun.(*ast.SelectorExpr); ok && s.Sel.Name == name {
				found = true
			}
		}
		return !found
	})
	return found
}

// measure returns "chars", "bytes" or "" for the way an expression measures the identifier v.
func measure(e ast.Expr) string {
	res := ""
	ast.Inspect(e, func(x ast.Node) bool {
		c, ok := x.(*ast.CallExpr)
		if !ok || len(c.Args) != 1 {
			return true
		}
		if id, ok := c.Args[0].(*ast.Ident); !ok || id.Name != "v" {
			return true
		}
		switch f := c.Fun.(type) {
		case *ast.Ident:
			if f.Name == "len" {
				res = "bytes"
			}
		case *ast.SelectorExpr:
			if p, ok := f.X.(*ast.Ident); ok && p.Name == "utf8" && f.Sel.Name == "RuneCountInString" {
				res = "chars"
			}
		}
		return true
	})
	return res
}

func mentions(e ast.Expr, name string) bool {
	found := false
	ast.Inspect(e, func(x ast.Node) bool {
		switch y := x.(type) {
		case *ast.Ident:
			if y.Name == name {
				found = true
			}
		case *ast.SelectorExpr:
			if y.Sel.Name == name {
				found = true
			}
		}
		return !found
	})
	return found
}

func srcValidate(f *facts, o *out) {
	const rel = "eval/eval_validate.go"
	emit := func(name string, val string, ok bool, def bool) {
		switch {
		case ok:
			o.add("Definition %s : bool := %s.", name, val)
			f.status[name] = "ok"
		default:
			d := "false"
			if def {
				d = "true"
			}
			o.add("Definition %s : bool := %s. (* default *)", name, d)
			f.status[name] = "unrecognised"
		}
	}
	b2s := func(b bool) string {
		if b {
			return "true"
		}
		return "false"
	}

	// validateString: the if statements whose init calls GetMinLength / GetMaxLength
	minM, maxM := "", ""
	if fd := f.funcDecl(rel, "validateString"); fd != nil {
		ast.Inspect(fd.Body, func(n ast.Node) bool {
			is, ok := n.(*ast.IfStmt)
			if !ok || is.Init == nil {
				return true
			}
			switch {
			case callsMethod(is.Init, "GetMinLength"):
				minM = measure(is.Cond)
			case callsMethod(is.Init, "GetMaxLength"):
				maxM = measure(is.Cond)
			}
			return true
		})
	}
	emit("strlen_min_chars", b2s(minM == "chars"), minM != "", true)
	emit("strlen_max_chars", b2s(maxM == "chars"), maxM != "", true)

	// validateElement: `if accept.Never { ... }`
	neverSeen, neverReports := false, false
	if fd := f.funcDecl(rel, "validateElement"); fd != nil {
		ast.Inspect(fd.Body, func(n ast.Node) bool {
			is, ok := n.(*ast.IfStmt)
			if !ok {
				return true
			}
			if s, ok := is.Cond.(*ast.SelectorExpr); ok && s.Sel.Name == "Never" {
				neverSeen = true
				neverReports = callsMethod(is.Body, "errorf")
			}
			return true
		})
	}
	emit("never_reports", b2s(neverReports), neverSeen, false)

	// evaluateTypedExpr: if !ok && !vv.diags.HasErrors() ... { vv.errorf(...) }
	gateSeen, gateFallback := false, false
	if fd := f.funcDecl("eval/eval.go", "evaluateTypedExpr"); fd != nil {
		gateSeen = callsMethod(fd.Body, "validateValue")
		ast.Inspect(fd.Body, func(n ast.Node) bool {
			is, ok := n.(*ast.IfStmt)
			if !ok {
				return true
			}
			neg := false
			ast.Inspect(is.Cond, func(x ast.Node) bool {
				if u, ok := x.(*ast.UnaryExpr); ok && u.Op == token.NOT {
					if id, ok := u.X.(*ast.Ident); ok && id.Name == "ok" {
						neg = true
					}
				}
				return true
			})
			if neg && mentions(is.Cond, "HasErrors") && callsMethod(is.Body, "errorf") {
				gateFallback = true
			}
			return true
		})
	}
	emit("gate_fallback", b2s(gateFallback), gateSeen, true)
}
