package main

// SrcOcc (C14): how the read-modify-write commands and the client treat the revision tag.
//
//   * cmd/esc/cli/client/client.go: the header constant, GetEnvironment returns the value of that response header
//     as its tag, UpdateEnvironmentWithRevision sends its `tag` parameter in that request header (guarded by
//     `tag != ""`), UpdateEnvironmentWithProject forwards its `tag` parameter.
//   * cmd/esc/cli/env_set.go, env_rm.go, env_edit.go: every call site of an Update* method of the client, with
//     what it passes as the tag: 0 = the variable bound to the tag result of GetEnvironment in the same command
//     (assigned exactly once, before the call), 1 = the literal "", 2 = anything else; and whether the call sits
//     inside the `if file != "" { ... }` branch (the non-interactive `env edit --file`, outside the property).
//   * cmd/esc/cli/client/retry.go: occ_should_retry_exact = every `return` of retryPolicy.shouldRetry is `true`,
//     `false` or `req.Method == <verb>` and doWithRetry re-sends only under `if policy.shouldRetry(req)`: the table
//     srcfacts reads for C20 (Src/SrcClient.v: should_retry_table, default_policy, the RetryPolicy option of
//     UpdateEnvironmentWithRevision) is then the whole truth about which requests are sent again, and
//     Model/OccSrc.v computes from it whether a PATCH is replayed after a lost reply.  Anything else (e.g. a clause
//     that looks at a header) gives false, which breaks C14_src_update_not_replayed.

import (
	"fmt"
	"go/ast"
	"go/constant"
	"go/token"
	"strings"
)

func init() { extraModules = append(extraModules, module{"SrcOcc", srcOcc}) }

func isIdent(e ast.Expr, name string) bool {
	id, ok := e.(*ast.Ident)
	return ok && id.Name == name
}

func isEmptyStringLit(e ast.Expr) bool {
	v, ok := litValue(e)
	return ok && v.Kind() == constant.String && constant.StringVal(v) == ""
}

func selName(e ast.Expr) string {
	if c, ok := e.(*ast.CallExpr); ok {
		if s, ok := c.Fun.(*ast.SelectorExpr); ok {
			return s.Sel.Name
		}
	}
	return ""
}

// lastParam returns the name of the last parameter of a function.
func lastParam(fd *ast.FuncDecl) string {
	if fd == nil || fd.Type.Params == nil || len(fd.Type.Params.List) == 0 {
		return ""
	}
	l := fd.Type.Params.List[len(fd.Type.Params.List)-1]
	if len(l.Names) == 0 {
		return ""
	}
	return l.Names[len(l.Names)-1].Name
}

// methodDecl finds a method by name (any receiver) in a file.
func (f *facts) methodDecl(rel, name string) *ast.FuncDecl {
	a := f.file(rel)
	if a == nil {
		return nil
	}
	for _, d := range a.Decls {
		if fd, ok := d.(*ast.FuncDecl); ok && fd.Name.Name == name && fd.Recv != nil && fd.Body != nil {
			return fd
		}
	}
	return nil
}

type occSite struct {
	inFile bool
	code   int
}

// occSites returns the update call sites of a command constructor, or nil if the shape is not recognised.
func occSites(f *facts, rel, fn string) ([]occSite, bool) {
	fd := f.funcDecl(rel, fn)
	if fd == nil || fd.Body == nil {
		return nil, false
	}
	// variables bound to the tag (second) result of GetEnvironment, with the position of the binding
	tagVars := map[string]token.Pos{}
	assigns := map[string]int{}
	var fileBranches [][2]token.Pos
	getSeen := false
	ast.Inspect(fd.Body, func(n ast.Node) bool {
		switch x := n.(type) {
		case *ast.AssignStmt:
			for _, l := range x.Lhs {
				if id, ok := l.(*ast.Ident); ok && id.Name != "_" {
					assigns[id.Name]++
				}
			}
			if len(x.Rhs) == 1 && selName(x.Rhs[0]) == "GetEnvironment" && len(x.Lhs) == 4 {
				getSeen = true // (a discarded tag result is a recognised shape: no site can then have code 0)
				if id, ok := x.Lhs[1].(*ast.Ident); ok && id.Name != "_" {
					tagVars[id.Name] = x.End()
				}
			}
		case *ast.IncDecStmt:
			if id, ok := x.X.(*ast.Ident); ok {
				assigns[id.Name]++
			}
		case *ast.UnaryExpr:
			if x.Op == token.AND {
				if id, ok := x.X.(*ast.Ident); ok {
					assigns[id.Name]++ // address taken: may be written elsewhere
				}
			}
		case *ast.IfStmt:
			if be, ok := x.Cond.(*ast.BinaryExpr); ok && be.Op == token.NEQ && isIdent(be.X, "file") && isEmptyStringLit(be.Y) {
				fileBranches = append(fileBranches, [2]token.Pos{x.Body.Pos(), x.Body.End()})
			}
		}
		return true
	})
	var sites []occSite
	ast.Inspect(fd.Body, func(n ast.Node) bool {
		call, ok := n.(*ast.CallExpr)
		if !ok {
			return true
		}
		switch selName(call) {
		case "UpdateEnvironmentWithProject", "UpdateEnvironmentWithRevision", "UpdateEnvironment":
		default:
			return true
		}
		if len(call.Args) == 0 {
			return true
		}
		last := call.Args[len(call.Args)-1]
		s := occSite{code: 2}
		for _, r := range fileBranches {
			if call.Pos() >= r[0] && call.End() <= r[1] {
				s.inFile = true
			}
		}
		if id, ok := last.(*ast.Ident); ok {
			if bound, ok := tagVars[id.Name]; ok && assigns[id.Name] == 1 && bound <= call.Pos() {
				s.code = 0
			}
		} else if isEmptyStringLit(last) {
			s.code = 1
		}
		sites = append(sites, s)
		return true
	})
	if !getSeen || len(sites) == 0 {
		return nil, false
	}
	return sites, true
}

func coqSites(sites []occSite) string {
	parts := make([]string, len(sites))
	for i, s := range sites {
		b := "false"
		if s.inFile {
			b = "true"
		}
		parts[i] = fmt.Sprintf("(%s, %d)", b, s.code)
	}
	return "[" + strings.Join(parts, "; ") + "]"
}

func srcOcc(f *facts, o *out) {
	const rel = "cmd/esc/cli/client/client.go"
	boolFact := func(name string, recognised, value bool) {
		switch {
		case !recognised:
			o.add("Definition %s : bool := true. (* default *)", name)
			f.status[name] = "unrecognised"
		case value:
			o.add("Definition %s : bool := true.", name)
			f.status[name] = "ok"
		default:
			o.add("Definition %s : bool := false.", name)
			f.status[name] = "ok"
		}
	}

	// the header constant
	if v, ok := litValue(f.constExpr(rel, "etagHeader")); ok && v.Kind() == constant.String {
		o.add("Definition occ_etag_header : string := %s.", coqString(constant.StringVal(v)))
		f.status["occ_etag_header"] = "ok"
	} else {
		o.add("Definition occ_etag_header : string := %s. (* default *)", coqString("ETag"))
		f.status["occ_etag_header"] = "unrecognised"
	}

	// GetEnvironment: `T := resp.Header.Get(etagHeader)` ... every 4-result `return _, T, _, nil`
	{
		fd := f.methodDecl(rel, "GetEnvironment")
		rec, val := false, false
		if fd != nil {
			tagVar := ""
			ast.Inspect(fd.Body, func(n ast.Node) bool {
				as, ok := n.(*ast.AssignStmt)
				if !ok || len(as.Lhs) != 1 || len(as.Rhs) != 1 {
					return true
				}
				call, ok := as.Rhs[0].(*ast.CallExpr)
				if !ok || selName(call) != "Get" || len(call.Args) != 1 {
					return true
				}
				sel := call.Fun.(*ast.SelectorExpr)
				if inner, ok := sel.X.(*ast.SelectorExpr); !ok || inner.Sel.Name != "Header" {
					return true
				}
				if id, ok := as.Lhs[0].(*ast.Ident); ok && isIdent(call.Args[0], "etagHeader") {
					tagVar = id.Name
				}
				return true
			})
			// the successful return (last statement of the body)
			if n := len(fd.Body.List); n > 0 {
				if rs, ok := fd.Body.List[n-1].(*ast.ReturnStmt); ok && len(rs.Results) == 4 {
					rec = true
					val = tagVar != "" && isIdent(rs.Results[1], tagVar)
				}
			}
		}
		boolFact("occ_get_returns_etag", rec, val)
	}

	// UpdateEnvironmentWithRevision: `if P != "" { H.Set(etagHeader, P) }` and `Header: H` in the call options
	{
		fd := f.methodDecl(rel, "UpdateEnvironmentWithRevision")
		rec, val := false, false
		if fd != nil {
			p := lastParam(fd)
			hdrVar, guarded, passed := "", false, false
			ast.Inspect(fd.Body, func(n ast.Node) bool {
				switch x := n.(type) {
				case *ast.IfStmt:
					be, ok := x.Cond.(*ast.BinaryExpr)
					if !ok || be.Op != token.NEQ || !isIdent(be.X, p) || !isEmptyStringLit(be.Y) || x.Else != nil {
						return true
					}
					for _, st := range x.Body.List {
						es, ok := st.(*ast.ExprStmt)
						if !ok {
							continue
						}
						call, ok := es.X.(*ast.CallExpr)
						if !ok || selName(call) != "Set" || len(call.Args) != 2 {
							continue
						}
						if isIdent(call.Args[0], "etagHeader") && isIdent(call.Args[1], p) {
							if id, ok := call.Fun.(*ast.SelectorExpr).X.(*ast.Ident); ok {
								hdrVar, guarded = id.Name, true
							}
						}
					}
				case *ast.KeyValueExpr:
					if isIdent(x.Key, "Header") && hdrVar != "" && isIdent(x.Value, hdrVar) {
						passed = true
					}
				}
				return true
			})
			rec = p != ""
			val = guarded && passed
		}
		boolFact("occ_update_sends_tag", rec, val)
	}

	// UpdateEnvironmentWithProject forwards its tag parameter to UpdateEnvironmentWithRevision
	{
		fd := f.methodDecl(rel, "UpdateEnvironmentWithProject")
		rec, val := false, false
		if fd != nil {
			p := lastParam(fd)
			ast.Inspect(fd.Body, func(n ast.Node) bool {
				call, ok := n.(*ast.CallExpr)
				if !ok || selName(call) != "UpdateEnvironmentWithRevision" || len(call.Args) == 0 {
					return true
				}
				rec = true
				val = p != "" && isIdent(call.Args[len(call.Args)-1], p)
				return true
			})
		}
		boolFact("occ_update_with_project_forwards_tag", rec, val)
	}

	// retry.go: shouldRetry decides on the policy and the verb alone; doWithRetry re-sends only when it says so
	{
		const retryGo = "cmd/esc/cli/client/retry.go"
		rec, val := false, false
		if fd := f.methodDecl(retryGo, "shouldRetry"); fd != nil {
			rec, val = true, true
			nret := 0
			ast.Inspect(fd.Body, func(n ast.Node) bool {
				rs, ok := n.(*ast.ReturnStmt)
				if !ok {
					return true
				}
				nret++
				if len(rs.Results) != 1 {
					val = false
					return true
				}
				switch r := rs.Results[0].(type) {
				case *ast.Ident:
					if r.Name != "true" && r.Name != "false" {
						val = false
					}
				case *ast.BinaryExpr:
					sel, ok := r.X.(*ast.SelectorExpr)
					if r.Op != token.EQL || !ok || !isIdent(sel.X, "req") || sel.Sel.Name != "Method" {
						val = false
					}
					switch y := r.Y.(type) {
					case *ast.SelectorExpr:
						if !isIdent(y.X, "http") || !strings.HasPrefix(y.Sel.Name, "Method") {
							val = false
						}
					case *ast.BasicLit:
						if y.Kind != token.STRING {
							val = false
						}
					default:
						val = false
					}
				default:
					val = false
				}
				return true
			})
			if nret == 0 {
				val = false
			}
			// doWithRetry: `if policy.shouldRetry(req) { ... return <retrying call> }; return client.Do(req)`
			dw := f.funcDecl(retryGo, "doWithRetry")
			if dw == nil || dw.Body == nil || len(dw.Body.List) != 2 {
				val = false
			} else {
				is, ok1 := dw.Body.List[0].(*ast.IfStmt)
				rs, ok2 := dw.Body.List[1].(*ast.ReturnStmt)
				if !ok1 || !ok2 || is.Else != nil || is.Init != nil || selName(is.Cond) != "shouldRetry" ||
					len(rs.Results) != 1 || selName(rs.Results[0]) != "Do" {
					val = false
				}
			}
		}
		if rec {
			boolFact("occ_should_retry_exact", true, val)
		} else {
			o.add("Definition occ_should_retry_exact : bool := false. (* default *)")
			f.status["occ_should_retry_exact"] = "unrecognised"
		}
	}

	// the commands
	for _, c := range []struct{ name, rel, fn, def string }{
		{"occ_set_sites", "cmd/esc/cli/env_set.go", "newEnvSetCmd", "[(false, 0)]"},
		{"occ_rm_sites", "cmd/esc/cli/env_rm.go", "newEnvRmCmd", "[(false, 0)]"},
		{"occ_edit_sites", "cmd/esc/cli/env_edit.go", "newEnvEditCmd", "[(true, 1); (false, 0)]"},
	} {
		if sites, ok := occSites(f, c.rel, c.fn); ok {
			o.add("Definition %s : list (bool * N) := %s.", c.name, coqSites(sites))
			f.status[c.name] = "ok"
		} else {
			o.add("Definition %s : list (bool * N) := %s. (* default *)", c.name, c.def)
			f.status[c.name] = "unrecognised"
		}
	}
}
