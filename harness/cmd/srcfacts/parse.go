package main

// Facts for Model/Parse.v (property C02, parser cases), written to coq/Src/SrcParse.v: the tables that are data in
// ast/expr.go and ast/environment.go —
//   the switch of tryParseFunction (key literal -> parse function), the short-open prefix it tests and the prefix
//   parseShortOpen trims, the reserved prefix and whether it is compared in lower case,
//   the keys parseOpen looks for, the arity parseJoin demands, the key parseSecret looks for,
//   the exported fields of EnvironmentDecl and ImportMetaDecl (the record parser is reflection driven) and whether
//   ParseEnvironment / ImportDecl.parse ask parseRecord for the unknown-field warning.
// A shape that is no longer recognised is reported as "unrecognised" and written as an empty value, which breaks the side
// condition C02_parse_src_ok instead of being defaulted.

import (
	"go/ast"
	"go/token"
	"strings"
)

func init() { extraModules = append(extraModules, module{"SrcParse", srcParse}) }

// psSwitchOn finds the first switch statement in body whose tag is a call of a method named sel (x.y.sel()).
func psSwitchOn(body ast.Node, sel string) *ast.SwitchStmt {
	var found *ast.SwitchStmt
	ast.Inspect(body, func(n ast.Node) bool {
		if found != nil {
			return false
		}
		sw, ok := n.(*ast.SwitchStmt)
		if !ok || sw.Tag == nil {
			return true
		}
		if c, ok := sw.Tag.(*ast.CallExpr); ok {
			if s, ok := c.Fun.(*ast.SelectorExpr); ok && s.Sel.Name == sel {
				found = sw
				return false
			}
		}
		return true
	})
	return found
}

func psPairs(l [][2]string) string {
	parts := make([]string, len(l))
	for i, p := range l {
		parts[i] = "(" + coqString(p[0]) + ", " + coqString(p[1]) + ")"
	}
	return "[" + strings.Join(parts, "; ") + "]"
}

// psExportedFields lists the exported, named fields of a struct type in declaration order.
func psExportedFields(f *facts, rel, typ string) ([]string, bool) {
	a := f.file(rel)
	if a == nil {
		return nil, false
	}
	for _, d := range a.Decls {
		gd, ok := d.(*ast.GenDecl)
		if !ok || gd.Tok != token.TYPE {
			continue
		}
		for _, s := range gd.Specs {
			ts, ok := s.(*ast.TypeSpec)
			if !ok || ts.Name.Name != typ {
				continue
			}
			st, ok := ts.Type.(*ast.StructType)
			if !ok {
				return nil, false
			}
			var out []string
			for _, fld := range st.Fields.List {
				for _, n := range fld.Names {
					if n.IsExported() {
						out = append(out, n.Name)
					}
				}
				if len(fld.Names) == 0 {
					// an embedded field: promoted exported fields would be visible to reflect.VisibleFields
					if id, ok := fld.Type.(*ast.Ident); ok && id.Name == "declNode" {
						continue // declNode has only the unexported field `syntax`
					}
					return nil, false
				}
			}
			return out, true
		}
	}
	return nil, false
}

// psRecordWarning returns the literal 4th argument of the parseRecord call whose first argument is the string name.
func psRecordWarning(fd *ast.FuncDecl, name string) (bool, bool) {
	val, ok := false, false
	if fd == nil {
		return false, false
	}
	ast.Inspect(fd.Body, func(n ast.Node) bool {
		c, isCall := isCall(n, "", "parseRecord")
		if !isCall || len(c.Args) != 4 {
			return true
		}
		if s, isStr := stringLit(c.Args[0]); !isStr || s != name {
			return true
		}
		if id, isID := c.Args[3].(*ast.Ident); isID && (id.Name == "true" || id.Name == "false") {
			val, ok = id.Name == "true", true
		}
		return true
	})
	return val, ok
}

func (f *facts) psMethodDecl(rel, recv, name string) *ast.FuncDecl {
	a := f.file(rel)
	if a == nil {
		return nil
	}
	for _, d := range a.Decls {
		fd, ok := d.(*ast.FuncDecl)
		if !ok || fd.Name.Name != name || fd.Recv == nil || len(fd.Recv.List) != 1 {
			continue
		}
		t := fd.Recv.List[0].Type
		if st, ok := t.(*ast.StarExpr); ok {
			t = st.X
		}
		if id, ok := t.(*ast.Ident); ok && id.Name == recv {
			return fd
		}
	}
	return nil
}

func srcParse(f *facts, o *out) {
	const expr = "ast/expr.go"
	const env = "ast/environment.go"
	status := func(name string, ok bool) {
		if ok {
			f.status[name] = "ok"
		} else {
			f.status[name] = "unrecognised"
		}
	}
	emitStr := func(name, val string, ok bool) {
		if !ok {
			val = ""
		}
		o.add("Definition %s : string := %s.", name, coqString(val))
		status(name, ok)
	}
	emitBool := func(name string, val, ok bool) {
		b := "false"
		if val && ok {
			b = "true"
		}
		o.add("Definition %s : bool := %s.", name, b)
		status(name, ok)
	}
	emitList := func(name string, l []string, ok bool) {
		if !ok {
			l = nil
		}
		o.add("Definition %s : list string := %s.", name, cyCoqStrList(l))
		status(name, ok)
	}

	// --- tryParseFunction: the table, the short-open prefix, the reserved prefix
	var table [][2]string
	tableOK := false
	shortPrefix, shortOK := "", false
	shortFn, reserved := "", ""
	reservedOK, reservedLower := false, false
	if fd := f.funcDecl(expr, "tryParseFunction"); fd != nil {
		if sw := psSwitchOn(fd.Body, "Value"); sw != nil {
			tableOK = true
			for _, st := range sw.Body.List {
				cc, ok := st.(*ast.CaseClause)
				if !ok {
					tableOK = false
					continue
				}
				if cc.List == nil {
					// default: `if strings.HasPrefix(key, "fn::open::") { parse = parseShortOpen; break }` then
					// `if strings.HasPrefix(strings.ToLower(key), "fn::") { diags = append(...) }`
					for _, ds := range cc.Body {
						is, ok := ds.(*ast.IfStmt)
						if !ok {
							continue
						}
						c, ok := isCall(is.Cond, "strings", "HasPrefix")
						if !ok || len(c.Args) != 2 {
							continue
						}
						lit, ok := stringLit(c.Args[1])
						if !ok {
							continue
						}
						assigns := ""
						for _, bs := range is.Body.List {
							if as, ok := bs.(*ast.AssignStmt); ok && len(as.Lhs) == 1 && len(as.Rhs) == 1 {
								if l, ok := as.Lhs[0].(*ast.Ident); ok && l.Name == "parse" {
									if r, ok := as.Rhs[0].(*ast.Ident); ok {
										assigns = r.Name
									}
								}
							}
						}
						if assigns != "" {
							shortPrefix, shortFn, shortOK = lit, assigns, true
						} else {
							reserved, reservedOK = lit, true
							_, reservedLower = isCall(c.Args[0], "strings", "ToLower")
						}
					}
					continue
				}
				fn := ""
				for _, bs := range cc.Body {
					if as, ok := bs.(*ast.AssignStmt); ok && len(as.Lhs) == 1 && len(as.Rhs) == 1 {
						if l, ok := as.Lhs[0].(*ast.Ident); ok && l.Name == "parse" {
							if r, ok := as.Rhs[0].(*ast.Ident); ok {
								fn = r.Name
							}
						}
					}
				}
				if fn == "" || len(cc.Body) != 1 {
					tableOK = false
				}
				for _, e := range cc.List {
					if s, ok := stringLit(e); ok {
						table = append(table, [2]string{s, fn})
					} else {
						tableOK = false
					}
				}
			}
		}
	}
	if !tableOK {
		table = nil
	}
	o.add("Definition parse_builtin_table : list (string * string) := %s.", psPairs(table))
	status("parse_builtin_table", tableOK)
	emitStr("parse_short_open_prefix", shortPrefix, shortOK)
	emitStr("parse_short_open_fn", shortFn, shortOK)
	emitStr("parse_reserved_prefix", reserved, reservedOK)
	emitBool("parse_reserved_lowercased", reservedLower, reservedOK)

	// --- parseShortOpen: strings.TrimPrefix(key, lit)
	trim, trimOK := "", false
	if fd := f.funcDecl(expr, "parseShortOpen"); fd != nil {
		ast.Inspect(fd.Body, func(n ast.Node) bool {
			if c, ok := isCall(n, "strings", "TrimPrefix"); ok && len(c.Args) == 2 {
				if s, ok := stringLit(c.Args[1]); ok && !trimOK {
					trim, trimOK = s, true
				}
			}
			return true
		})
	}
	emitStr("parse_short_open_trim", trim, trimOK)

	// --- parseOpen: the keys of its switch
	var openKeys []string
	openOK := false
	if fd := f.funcDecl(expr, "parseOpen"); fd != nil {
		if sw := psSwitchOn(fd.Body, "GetValue"); sw != nil {
			openOK = true
			for _, st := range sw.Body.List {
				cc, ok := st.(*ast.CaseClause)
				if !ok || cc.List == nil {
					openOK = false
					continue
				}
				for _, e := range cc.List {
					if s, ok := stringLit(e); ok {
						openKeys = append(openKeys, s)
					} else {
						openOK = false
					}
				}
			}
		}
	}
	emitList("parse_open_keys", openKeys, openOK)

	// --- parseJoin: len(list.Elements) != K
	arity, arityOK := "0", false
	if fd := f.funcDecl(expr, "parseJoin"); fd != nil {
		ast.Inspect(fd.Body, func(n ast.Node) bool {
			be, ok := n.(*ast.BinaryExpr)
			if !ok || be.Op != token.NEQ || arityOK {
				return true
			}
			if c, ok := isCall(be.X, "", "len"); ok && len(c.Args) == 1 {
				if v, ok := litValue(be.Y); ok {
					arity, arityOK = v.ExactString(), true
				}
			}
			return true
		})
	}
	o.add("Definition parse_join_arity : N := %s.", arity)
	status("parse_join_arity", arityOK)

	// --- parseSecret: the key compared with GetValue()
	secretKey, secretOK := "", false
	if fd := f.funcDecl(expr, "parseSecret"); fd != nil {
		for _, c := range cyCmpLiterals(fd.Body) {
			if c.op == token.EQL && !secretOK {
				secretKey, secretOK = c.lit, true
			}
		}
	}
	emitStr("parse_secret_key", secretKey, secretOK)

	// --- the records
	envFields, envOK := psExportedFields(f, env, "EnvironmentDecl")
	emitList("parse_env_fields", envFields, envOK)
	metaFields, metaOK := psExportedFields(f, env, "ImportMetaDecl")
	emitList("parse_import_meta_fields", metaFields, metaOK)
	w, wok := psRecordWarning(f.funcDecl(env, "ParseEnvironment"), "environment")
	emitBool("parse_env_unknown_field_warning", w, wok)
	w, wok = psRecordWarning(f.psMethodDecl(env, "ImportDecl", "parse"), "import")
	emitBool("parse_import_unknown_field_warning", w, wok)
}
