package main

// Facts for C17 (shell / dotenv renderings): cmd/esc/cli/prepare.go, cmd/esc/cli/env_open.go, value.go.

import (
	"go/ast"
	"go/constant"
	"go/token"
	"strconv"
	"strings"
)

func init() { extraModules = append(extraModules, module{"SrcShell", srcShell}) }

func stringLit(e ast.Expr) (string, bool) {
	v, ok := litValue(e)
	if !ok || v.Kind() != constant.String {
		return "", false
	}
	return constant.StringVal(v), true
}

// isCall reports whether e is a call of pkg.name (or of name when pkg is "") and returns it.
func isCall(e ast.Node, pkg, name string) (*ast.CallExpr, bool) {
	c, ok := e.(*ast.CallExpr)
	if !ok {
		return nil, false
	}
	switch f := c.Fun.(type) {
	case *ast.SelectorExpr:
		if f.Sel.Name != name {
			return nil, false
		}
		if pkg == "*" {
			return c, true
		}
		if id, ok := f.X.(*ast.Ident); ok && id.Name == pkg {
			return c, true
		}
	case *ast.Ident:
		if pkg == "" && f.Name == name {
			return c, true
		}
	}
	return nil, false
}

// pairFormats collects the formats of all fmt.Sprintf calls with exactly two %v verbs in a function.
func pairFormats(fd *ast.FuncDecl) []string {
	var out []string
	if fd == nil {
		return out
	}
	ast.Inspect(fd.Body, func(n ast.Node) bool {
		if c, ok := isCall(n, "fmt", "Sprintf"); ok && len(c.Args) == 3 {
			if s, ok := stringLit(c.Args[0]); ok && strings.Count(s, "%v") == 2 && strings.Count(s, "%") == 2 {
				out = append(out, s)
			}
		}
		return true
	})
	return out
}

func srcShell(f *facts, o *out) {
	const prepare = "cmd/esc/cli/prepare.go"
	const envOpen = "cmd/esc/cli/env_open.go"
	def := func(name, typ, val string, ok bool, dflt string) {
		if ok {
			o.add("Definition %s : %s := %s.", name, typ, val)
			f.status[name] = "ok"
		} else {
			o.add("Definition %s : %s := %s. (* default *)", name, typ, dflt)
			f.status[name] = "unrecognised"
		}
	}

	// --- renderValue, case "shell": fmt.Fprintf(out, "export %v\n", kvp) -----------------------------------
	prefix, suffix, okLine := "", "", false
	if fd := f.funcDecl(envOpen, "renderValue"); fd != nil {
		ast.Inspect(fd.Body, func(n ast.Node) bool {
			cc, ok := n.(*ast.CaseClause)
			if !ok || len(cc.List) != 1 {
				return true
			}
			if s, ok := stringLit(cc.List[0]); !ok || s != "shell" {
				return true
			}
			count := 0
			for _, st := range cc.Body {
				ast.Inspect(st, func(m ast.Node) bool {
					if c, ok := isCall(m, "fmt", "Fprintf"); ok && len(c.Args) == 3 {
						if s, ok := stringLit(c.Args[1]); ok && strings.Count(s, "%v") == 1 && strings.Count(s, "%") == 1 {
							i := strings.Index(s, "%v")
							prefix, suffix = s[:i], s[i+2:]
							count++
						}
					}
					return true
				})
			}
			okLine = count == 1
			return false
		})
	}
	def("shell_line_prefix", "string", coqString(prefix), okLine, coqString("export "))
	def("shell_line_suffix", "string", coqString(suffix), okLine, coqString("\n"))

	// --- "%v=%v" in getEnvironmentVariables and createTemporaryFiles -------------------------------------------
	sep, okSep := "", false
	fv := pairFormats(f.funcDecl(prepare, "getEnvironmentVariables"))
	ff := pairFormats(f.funcDecl(prepare, "createTemporaryFiles"))
	if len(fv) == 1 && len(ff) == 1 && fv[0] == ff[0] && strings.HasPrefix(fv[0], "%v") && strings.HasSuffix(fv[0], "%v") &&
		len(fv[0]) >= 4 {
		sep, okSep = fv[0][2:len(fv[0])-2], true
	}
	def("env_pair_sep", "string", coqString(sep), okSep, coqString("="))

	// --- if redact { s = "[secret]" } ------------------------------------------------------------------------------
	secret, okSecret := "", false
	if fd := f.funcDecl(prepare, "getEnvironmentVariables"); fd != nil {
		ast.Inspect(fd.Body, func(n ast.Node) bool {
			is, ok := n.(*ast.IfStmt)
			if !ok {
				return true
			}
			if id, ok := is.Cond.(*ast.Ident); !ok || id.Name != "redact" {
				return true
			}
			if len(is.Body.List) == 1 {
				if as, ok := is.Body.List[0].(*ast.AssignStmt); ok && as.Tok == token.ASSIGN && len(as.Rhs) == 1 {
					if s, ok := stringLit(as.Rhs[0]); ok {
						secret, okSecret = s, true
					}
				}
			}
			return true
		})
	}
	def("secret_placeholder", "string", coqString(secret), okSecret, coqString("[secret]"))

	// --- path := "[unknown]" in createTemporaryFiles ---------------------------------------------------------------
	upath, okPath := "", false
	if fd := f.funcDecl(prepare, "createTemporaryFiles"); fd != nil {
		ast.Inspect(fd.Body, func(n ast.Node) bool {
			as, ok := n.(*ast.AssignStmt)
			if !ok || as.Tok != token.DEFINE || len(as.Lhs) != 1 || len(as.Rhs) != 1 {
				return true
			}
			if id, ok := as.Lhs[0].(*ast.Ident); ok && id.Name == "path" {
				if s, ok := stringLit(as.Rhs[0]); ok {
					upath, okPath = s, true
				}
			}
			return true
		})
	}
	def("unknown_path_placeholder", "string", coqString(upath), okPath, coqString("[unknown]"))

	// --- Value.ToString: if v.Unknown { return "[unknown]" } ---------------------------------------------------------
	uval, okVal := "", false
	if fd := f.funcDecl("value.go", "ToString"); fd != nil {
		ast.Inspect(fd.Body, func(n ast.Node) bool {
			is, ok := n.(*ast.IfStmt)
			if !ok {
				return true
			}
			sel, ok := is.Cond.(*ast.SelectorExpr)
			if !ok || sel.Sel.Name != "Unknown" || len(is.Body.List) != 1 {
				return true
			}
			if rs, ok := is.Body.List[0].(*ast.ReturnStmt); ok && len(rs.Results) == 1 {
				if s, ok := stringLit(rs.Results[0]); ok {
					uval, okVal = s, true
				}
			}
			return true
		})
	}
	def("unknown_value_text", "string", coqString(uval), okVal, coqString("[unknown]"))

	// --- shellQuote: the bytes of the case clause whose body writes a backslash ---------------------------------------
	var escaped []string
	okEsc := false
	if fd := f.funcDecl(prepare, "shellQuote"); fd != nil {
		clauses := 0
		ast.Inspect(fd.Body, func(n ast.Node) bool {
			cc, ok := n.(*ast.CaseClause)
			if !ok {
				return true
			}
			clauses++
			writesBackslash := false
			for _, st := range cc.Body {
				ast.Inspect(st, func(m ast.Node) bool {
					if c, ok := isCall(m, "*", "WriteByte"); ok && len(c.Args) == 1 {
						if bl, ok := c.Args[0].(*ast.BasicLit); ok && bl.Kind == token.CHAR && bl.Value == `'\\'` {
							writesBackslash = true
						}
					}
					return true
				})
			}
			if !writesBackslash || len(cc.List) == 0 {
				return true
			}
			all := true
			var bs []string
			for _, e := range cc.List {
				bl, ok := e.(*ast.BasicLit)
				if !ok || bl.Kind != token.CHAR {
					all = false
					break
				}
				r, _, _, err := strconv.UnquoteChar(bl.Value[1:len(bl.Value)-1], '\'')
				if err != nil || r > 255 {
					all = false
					break
				}
				bs = append(bs, strconv.Itoa(int(r)))
			}
			if all {
				escaped, okEsc = bs, true
			}
			return true
		})
		if clauses != 1 {
			okEsc = false
		}
	}
	def("shell_escaped_bytes", "list N", "["+strings.Join(escaped, "; ")+"]", okEsc, "[36; 96; 34; 92]")
}
