package main

// Facts for C17 (shell / dotenv renderings): cmd/esc/cli/prepare.go, cmd/esc/cli/env_open.go, value.go.

import (
	"go/ast"
	"go/constant"
	"go/token"
	"strconv"
	"strings"
)

func init() { extraModules = append(extraModules, module{"SrcShell", srcShell}) }

func stringLit(e ast.Expr) (string, bool) {
	v, ok := litValue(e)
	if !ok || v.Kind() != constant.String {
		return "", false
	}
	return constant.StringVal(v), true
}

// isCall reports whether e is a call of pkg.name (or of name when pkg is "") and returns it.
func isCall(e ast.Node, pkg, name string) (*ast.CallExpr, bool) {
	c, ok := e.(*ast.CallExpr)
	if !ok {
		return nil, false
	}
	switch f := c.Fun.(type) {
	case *ast.SelectorExpr:
		if f.Sel.Name != name {
			return nil, false
		}
		if pkg == "*" {
			return c, true
		}
		if id, ok := f.X.(*ast.Ident); ok && id.Name == pkg {
			return c, true
		}
	case *ast.Ident:
		if pkg == "" && f.Name == name {
			return c, true
		}
	}
	return nil, false
}

// pairFormats collects the formats of all fmt.Sprintf calls with exactly two %v verbs in a function.
func pairFormats(fd *ast.FuncDecl) []string {
	var out []string
	if fd == nil {
		return out
	}
	ast.Inspect(fd.Body, func(n ast.Node) bool {
		if c, ok := isCall(n, "fmt", "Sprintf"); ok && len(c.Args) == 3 {
			if s, ok := stringLit(c.Args[0]); ok && strings.Count(s, "%v") == 2 && strings.Count(s, "%") == 2 {
				out = append(out, s)
			}
		}
		return true
	})
	return out
}

func srcShell(f *facts, o *out) {
	const prepare = "cmd/esc/cli/prepare.go"
	const envOpen = "cmd/esc/cli/env_open.go"
	def := func(name, typ, val string, ok bool, dflt string) {
		if ok {
			o.add("Definition %s : %s := %s.", name, typ, val)
			f.status[name] = "ok"
		} else {
			o.add("Definition %s : %s := %s. (* default *)", name, typ, dflt)
			f.status[name] = "unrecognised"
		}
	}

	// --- renderValue, case "shell": fmt.Fprintf(out, "export %v\n", kvp) -----------------------------------
	prefix, suffix, okLine := "", "", false
	if fd := f.funcDecl(envOpen, "renderValue"); fd != nil {
		ast.Inspect(fd.Body, func(n ast.Node) bool {
			cc, ok := n.(*ast.CaseClause)
			if !ok || len(cc.List) != 1 {
				return true
			}
			if s, ok := stringLit(cc.List[0]); !ok || s != "shell" {
				return true
			}
			count := 0
			for _, st := range cc.Body {
				ast.Inspect(st, func(m ast.Node) bool {
					if c, ok := isCall(m, "fmt", "Fprintf"); ok && len(c.Args) == 3 {
						if s, ok := stringLit(c.Args[1]); ok && strings.Count(s, "%v") == 1 && strings.Count(s, "%") == 1 {
							i := strings.Index(s, "%v")
							prefix, suffix = s[:i], s[i+2:]
							count++
						}
					}
					return true
				})
			}
			okLine = count == 1
			return false
		})
	}
	def("shell_line_prefix", "string", coqString(prefix), okLine, coqString("export "))
	def("shell_line_suffix", "string", coqString(suffix), okLine, coqString("\n"))

	// --- "%v=%v" in getEnvironmentVariables and createTemporaryFiles -------------------------------------------
	sep, okSep := "", false
	fv := pairFormats(f.funcDecl(prepare, "getEnvironmentVariables"))
	ff := pairFormats(f.funcDecl(prepare, "createTemporaryFiles"))
	if len(fv) == 1 && len(ff) == 1 && fv[0] == ff[0] && strings.HasPrefix(fv[0], "%v") && strings.HasSuffix(fv[0], "%v") &&
		len(fv[0]) >= 4 {
		sep, okSep = fv[0][2:len(fv[0])-2], true
	}
	def("env_pair_sep", "string", coqString(sep), okSep, coqString("="))

	// --- if redact { s = "[secret]" } ------------------------------------------------------------------------------
	secret, okSecret := "", false
	if fd := f.funcDecl(prepare, "getEnvironmentVariables"); fd != nil {
		ast.Inspect(fd.Body, func(n ast.Node) bool {
			is, ok := n.(*ast.IfStmt)
			if !ok {
				return true
			}
			if id, ok := is.Cond.(*ast.Ident); !ok || id.Name != "redact" {
				return true
			}
			if len(is.Body.List) == 1 {
				if as, ok := is.Body.List[0].(*ast.AssignStmt); ok && as.Tok == token.ASSIGN && len(as.Rhs) == 1 {
					if s, ok := stringLit(as.Rhs[0]); ok {
						secret, okSecret = s, true
					}
				}
			}
			return true
		})
	}
	def("secret_placeholder", "string", coqString(secret), okSecret, coqString("[secret]"))

	// --- path := "[unknown]" in createTemporaryFiles ---------------------------------------------------------------
	upath, okPath := "", false
	if fd := f.funcDecl(prepare, "createTemporaryFiles"); fd != nil {
		ast.Inspect(fd.Body, func(n ast.Node) bool {
			as, ok := n.(*ast.AssignStmt)
			if !ok || as.Tok != token.DEFINE || len(as.Lhs) != 1 || len(as.Rhs) != 1 {
				return true
			}
			if id, ok := as.Lhs[0].(*ast.Ident); ok && id.Name == "path" {
				if s, ok := stringLit(as.Rhs[0]); ok {
					upath, okPath = s, true
				}
			}
			return true
		})
	}
	def("unknown_path_placeholder", "string", coqString(upath), okPath, coqString("[unknown]"))

	// --- Value.ToString: if v.Unknown { return "[unknown]" } ---------------------------------------------------------
	uval, okVal := "", false
	if fd := f.funcDecl("value.go", "ToString"); fd != nil {
		ast.Inspect(fd.Body, func(n ast.Node) bool {
			is, ok := n.(*ast.IfStmt)
			if !ok {
				return true
			}
			sel, ok := is.Cond.(*ast.SelectorExpr)
			if !ok || sel.Sel.Name != "Unknown" || len(is.Body.List) != 1 {
				return true
			}
			if rs, ok := is.Body.List[0].(*ast.ReturnStmt); ok && len(rs.Results) == 1 {
				if s, ok := stringLit(rs.Results[0]); ok {
					uval, okVal = s, true
				}
			}
			return true
		})
	}
	def("unknown_value_text", "string", coqString(uval), okVal, coqString("[unknown]"))

	// --- shellQuote: the bytes of the case clause whose body writes a backslash ---------------------------------------
	var escaped []string
	okEsc := false
	if fd := f.funcDecl(prepare, "shellQuote"); fd != nil {
		clauses := 0
		ast.Inspect(fd.Body, func(n ast.Node) bool {
			cc, ok := n.(*ast.CaseClause)
			if !ok {
				return true
			}
			clauses++
			writesBackslash := false
			for _, st := range cc.Body {
				ast.Inspect(st, func(m ast.Node) bool {
					if c, ok := isCall(m, "*", "WriteByte"); ok && len(c.Args) == 1 {
						if bl, ok := c.Args[0].(*ast.BasicLit); ok && bl.Kind == token.CHAR && bl.Value == `'\\'` {
							writesBackslash = true
						}
					}
					return true
				})
			}
			if !writesBackslash || len(cc.List) == 0 {
				return true
			}
			all := true
			var bs []string
			for _, e := range cc.List {
				bl, ok := e.(*ast.BasicLit)
				if !ok || bl.Kind != token.CHAR {
					all = false
					break
				}
				r, _, _, err := strconv.UnquoteChar(bl.Value[1:len(bl.Value)-1], '\'')
				if err != nil || r > 255 {
					all = false
					break
				}
				bs = append(bs, strconv.Itoa(int(r)))
			}
			if all {
				escaped, okEsc = bs, true
			}
			return true
		})
		if clauses != 1 {
			okEsc = false
		}
	}
	def("shell_escaped_bytes", "list N", "["+strings.Join(escaped, "; ")+"]", okEsc, "[36; 96; 34; 92]")

	// --- the callers of renderValue: which pretend / showSecrets they pass -------------------------------------------
	//   env_get.go  writeValue:  get.env.renderValue(out, env, path, format, true, showSecrets)
	//   env_open.go RunE:        envcmd.renderValue(envcmd.esc.stdout, env, path, format, false, true)
	const envGet = "cmd/esc/cli/env_get.go"
	renderCalls := func(fd *ast.FuncDecl) []*ast.CallExpr {
		var out []*ast.CallExpr
		if fd == nil {
			return out
		}
		ast.Inspect(fd.Body, func(n ast.Node) bool {
			if c, ok := isCall(n, "*", "renderValue"); ok && len(c.Args) == 6 {
				out = append(out, c)
			}
			return true
		})
		return out
	}
	boolLit := func(e ast.Expr) (bool, bool) {
		id, ok := e.(*ast.Ident)
		if !ok || (id.Name != "true" && id.Name != "false") {
			return false, false
		}
		return id.Name == "true", true
	}
	coqBool := func(b bool) string {
		if b {
			return "true"
		}
		return "false"
	}
	getPretend, getFlag, okGet := false, false, false
	if fd := f.funcDecl(envGet, "writeValue"); fd != nil {
		if cs := renderCalls(fd); len(cs) == 1 {
			// the last parameter of writeValue is the flag; it must be what the command passes on
			flagParam := ""
			if ps := fd.Type.Params.List; len(ps) > 0 && len(ps[len(ps)-1].Names) == 1 {
				flagParam = ps[len(ps)-1].Names[0].Name
			}
			p, okP := boolLit(cs[0].Args[4])
			id, okId := cs[0].Args[5].(*ast.Ident)
			if okP && okId && flagParam != "" && id.Name == flagParam {
				getPretend, getFlag, okGet = p, true, true
			}
		}
	}
	// ... and the flag variable of the command reaches writeValue unchanged: showValue(ctx, ref, path, value, showSecrets)
	if okGet {
		okGet = false
		if fd := f.funcDecl(envGet, "showValue"); fd != nil {
			ast.Inspect(fd.Body, func(n ast.Node) bool {
				if c, ok := isCall(n, "*", "writeValue"); ok && len(c.Args) == 6 {
					ps := fd.Type.Params.List
					if id, ok := c.Args[5].(*ast.Ident); ok && len(ps) > 0 && len(ps[len(ps)-1].Names) == 1 &&
						id.Name == ps[len(ps)-1].Names[0].Name {
						okGet = true
					}
				}
				return true
			})
		}
	}
	def("get_render_pretend", "bool", coqBool(getPretend), okGet, "false")
	def("get_render_show_is_the_flag", "bool", coqBool(getFlag), okGet, "false")

	openPretend, openShow, okOpen := false, false, false
	if fd := f.funcDecl(envOpen, "newEnvOpenCmd"); fd != nil {
		if cs := renderCalls(fd); len(cs) == 1 {
			p, okP := boolLit(cs[0].Args[4])
			sh, okS := boolLit(cs[0].Args[5])
			if okP && okS {
				openPretend, openShow, okOpen = p, sh, true
			}
		}
	}
	def("open_render_pretend", "bool", coqBool(openPretend), okOpen, "true")
	def("open_render_show", "bool", coqBool(openShow), okOpen, "false")

	// --- renderValue hands its arguments to prepareEnvironment: PrepareOptions{Pretend: pretend, Quote: true,
	//     [Shell: true,] Redact: !showSecrets} in the "shell" / "dotenv" cases ------------------------------------------
	optsOK := func(format string, wantShell bool) bool {
		fd := f.funcDecl(envOpen, "renderValue")
		if fd == nil || len(fd.Type.Params.List) < 2 {
			return false
		}
		found, good := 0, false
		ast.Inspect(fd.Body, func(n ast.Node) bool {
			cc, ok := n.(*ast.CaseClause)
			if !ok || len(cc.List) != 1 {
				return true
			}
			if s, ok := stringLit(cc.List[0]); !ok || s != format {
				return true
			}
			for _, st := range cc.Body {
				ast.Inspect(st, func(m ast.Node) bool {
					cl, ok := m.(*ast.CompositeLit)
					if !ok {
						return true
					}
					if id, ok := cl.Type.(*ast.Ident); !ok || id.Name != "PrepareOptions" {
						return true
					}
					found++
					fields := map[string]string{}
					for _, e := range cl.Elts {
						kv, ok := e.(*ast.KeyValueExpr)
						if !ok {
							return true
						}
						k, _ := kv.Key.(*ast.Ident)
						if k == nil {
							return true
						}
						switch v := kv.Value.(type) {
						case *ast.Ident:
							fields[k.Name] = v.Name
						case *ast.UnaryExpr:
							if id, ok := v.X.(*ast.Ident); ok && v.Op == token.NOT {
								fields[k.Name] = "!" + id.Name
							}
						default:
							fields[k.Name] = "?"
						}
					}
					want := map[string]string{"Pretend": "pretend", "Quote": "true", "Redact": "!showSecrets"}
					if wantShell {
						want["Shell"] = "true"
					}
					good = len(fields) == len(want)
					for k, v := range want {
						if fields[k] != v {
							good = false
						}
					}
					return true
				})
			}
			return false
		})
		return found == 1 && good
	}
	okOptsShell, okOptsDotenv := optsOK("shell", true), optsOK("dotenv", false)
	def("render_shell_options_ok", "bool", "true", okOptsShell, "false")
	def("render_dotenv_options_ok", "bool", "true", okOptsDotenv, "false")
}
