package main

// Facts of syntax/encoding/yaml.go used by the C19 model (coq/Src/SrcPositions.v): the shapes in which the
// line/column -> byte mapping of today's source and of a repaired source differ.

import (
	"go/ast"
	"go/constant"
	"go/token"
	"strconv"
)

func init() {
	extraModules = append(extraModules, module{name: "SrcPositions", fn: srcPositions})
}

// posContainsCall reports whether n contains a call of pkg.fn (or of the builtin fn when pkg is "").
func posContainsCall(n ast.Node, pkg, fn string) bool {
	found := false
	if n == nil {
		return false
	}
	ast.Inspect(n, func(x ast.Node) bool {
		c, ok := x.(*ast.CallExpr)
		if !ok {
			return true
		}
		switch f := c.Fun.(type) {
		case *ast.SelectorExpr:
			if id, ok := f.X.(*ast.Ident); ok && id.Name == pkg && f.Sel.Name == fn {
				found = true
			}
		case *ast.Ident:
			if pkg == "" && f.Name == fn {
				found = true
			}
		}
		return true
	})
	return found
}

// posLenUnit classifies an expression that measures a string: "bytes" for len(x), "chars" for
// utf8.RuneCountInString(x) / utf8.RuneCount(x), "" otherwise.
func posLenUnit(e ast.Expr) string {
	switch {
	case posContainsCall(e, "utf8", "RuneCountInString"), posContainsCall(e, "utf8", "RuneCount"):
		return "chars"
	case posContainsCall(e, "", "len"):
		return "bytes"
	}
	return ""
}

func posCoqBool(b bool) string {
	if b {
		return "true"
	}
	return "false"
}

func srcPositions(f *facts, o *out) {
	const rel = "syntax/encoding/yaml.go"
	emitBool := func(name string, v bool, ok bool, def bool) {
		if ok {
			o.add("Definition %s : bool := %s.", name, posCoqBool(v))
			f.status[name] = "ok"
		} else {
			o.add("Definition %s : bool := %s. (* default *)", name, posCoqBool(def))
			f.status[name] = "unrecognised"
		}
	}

	// ---- positionIndex.pos ----
	lo, loOK := 0, false
	hiIncl, hiOK := false, false
	clamp, clampOK := false, false
	runes, runesOK := false, false
	if fd := f.funcDecl(rel, "pos"); fd != nil && fd.Body != nil {
		// guard: first statement `if line < K || line (>=|>) len(p.lines) { return ... }`
		if len(fd.Body.List) > 0 {
			if is, ok := fd.Body.List[0].(*ast.IfStmt); ok {
				if or, ok := is.Cond.(*ast.BinaryExpr); ok && or.Op == token.LOR {
					if l, ok := or.X.(*ast.BinaryExpr); ok {
						if id, ok := l.X.(*ast.Ident); ok && id.Name == "line" {
							if v, ok := litValue(l.Y); ok && v.Kind() == constant.Int {
								k, _ := strconv.Atoi(v.ExactString())
								switch l.Op {
								case token.LSS:
									lo, loOK = k, true
								case token.LEQ:
									lo, loOK = k+1, true
								}
							}
						}
					}
					if r, ok := or.Y.(*ast.BinaryExpr); ok {
						if id, ok := r.X.(*ast.Ident); ok && id.Name == "line" && posContainsCall(r.Y, "", "len") {
							switch r.Op {
							case token.GEQ:
								hiIncl, hiOK = false, true
							case token.GTR:
								hiIncl, hiOK = true, true
							}
						}
					}
				}
			}
		}
		// ASCII fast path: `if l.ascii { ... }`; clamped iff its body mentions len(l.line) / min(...)
		for _, st := range fd.Body.List {
			is, ok := st.(*ast.IfStmt)
			if !ok {
				continue
			}
			if sel, ok := is.Cond.(*ast.SelectorExpr); ok && sel.Sel.Name == "ascii" {
				clampOK = true
				clamp = posContainsCall(is.Body, "", "len") || posContainsCall(is.Body, "", "min")
			}
		}
		// the walk of the non-ASCII path
		switch {
		case posContainsCall(fd.Body, "uniseg", "Step"), posContainsCall(fd.Body, "uniseg", "StepString"),
			posContainsCall(fd.Body, "uniseg", "FirstGraphemeCluster"):
			runes, runesOK = false, true
		case posContainsCall(fd.Body, "utf8", "DecodeRune"), posContainsCall(fd.Body, "utf8", "DecodeRuneInString"):
			runes, runesOK = true, true
		}
	}
	if loOK {
		o.add("Definition pos_line_lo : Z := %d%%Z.", lo)
		f.status["pos_line_lo"] = "ok"
	} else {
		o.add("Definition pos_line_lo : Z := 1%%Z. (* default *)")
		f.status["pos_line_lo"] = "unrecognised"
	}
	emitBool("pos_line_hi_inclusive", hiIncl, hiOK, true)
	emitBool("pos_ascii_clamp", clamp, clampOK, false)
	emitBool("pos_column_runes", runes, runesOK, false)

	// ---- yamlEndPos: `col += <len>(n.Tag) + 1` and `return p.pos(line, col+<len>(s))` of the scalar branch ----
	endUnit, tagUnit := "", ""
	if fd := f.funcDecl(rel, "yamlEndPos"); fd != nil && fd.Body != nil {
		ast.Inspect(fd.Body, func(n ast.Node) bool {
			switch x := n.(type) {
			case *ast.AssignStmt:
				if x.Tok == token.ADD_ASSIGN && len(x.Lhs) == 1 && len(x.Rhs) == 1 {
					if id, ok := x.Lhs[0].(*ast.Ident); ok && id.Name == "col" {
						tagUnit = posLenUnit(x.Rhs[0])
					}
				}
			case *ast.ReturnStmt:
				if len(x.Results) == 1 {
					if c, ok := x.Results[0].(*ast.CallExpr); ok && len(c.Args) == 2 {
						if sel, ok := c.Fun.(*ast.SelectorExpr); ok && sel.Sel.Name == "pos" {
							if be, ok := c.Args[1].(*ast.BinaryExpr); ok && be.Op == token.ADD {
								endUnit = posLenUnit(be.Y)
							}
						}
					}
				}
			}
			return true
		})
	}
	emitBool("end_len_chars", endUnit == "chars", endUnit != "", false)
	emitBool("end_tag_len_chars", tagUnit == "chars", tagUnit != "", false)

	// ---- ScalarRange: column advance ----
	srRunes, srOK := false, false
	if a := f.file(rel); a != nil {
		for _, d := range a.Decls {
			fd, ok := d.(*ast.FuncDecl)
			if !ok || fd.Name.Name != "ScalarRange" || fd.Body == nil {
				continue
			}
			switch {
			case posContainsCall(fd.Body, "uniseg", "StringWidth"):
				srRunes, srOK = false, true
			case posContainsCall(fd.Body, "utf8", "RuneCountInString"):
				srRunes, srOK = true, true
			}
		}
	}
	emitBool("scalar_range_runes", srRunes, srOK, false)
}
