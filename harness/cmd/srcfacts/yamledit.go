package main

// syntax/encoding/yaml.go: what YAMLSyntax.Set copies from the new node, and how YAMLSyntax.Delete guards an
// empty path and a missing intermediate key (property C15).

import (
	"go/ast"
	"go/token"
)

func init() {
	extraModules = append(extraModules, module{name: "SrcYamlEdit", fn: srcYamlEdit})
}

// isLenCmp recognises `len(<name>) <op> <int literal lit>`.
func isLenCmp(e ast.Expr, name string, op token.Token, lit string) bool {
	be, ok := e.(*ast.BinaryExpr)
	if !ok || be.Op != op {
		return false
	}
	call, ok := be.X.(*ast.CallExpr)
	if !ok || len(call.Args) != 1 {
		return false
	}
	if id, ok := call.Fun.(*ast.Ident); !ok || id.Name != "len" {
		return false
	}
	if id, ok := call.Args[0].(*ast.Ident); !ok || id.Name != name {
		return false
	}
	bl, ok := be.Y.(*ast.BasicLit)
	return ok && bl.Value == lit
}

func selIs(e ast.Expr, x, sel string) bool {
	s, ok := e.(*ast.SelectorExpr)
	if !ok || s.Sel.Name != sel {
		return false
	}
	id, ok := s.X.(*ast.Ident)
	return ok && id.Name == x
}

// `s.<F> = new.<F>` -> F
func copiedField(st ast.Stmt) (string, bool) {
	as, ok := st.(*ast.AssignStmt)
	if !ok || as.Tok != token.ASSIGN || len(as.Lhs) != 1 || len(as.Rhs) != 1 {
		return "", false
	}
	l, ok := as.Lhs[0].(*ast.SelectorExpr)
	if !ok {
		return "", false
	}
	if !selIs(as.Lhs[0], "s", l.Sel.Name) || !selIs(as.Rhs[0], "new", l.Sel.Name) {
		return "", false
	}
	return l.Sel.Name, true
}

// guard body `{ return nil }` -> 1 (no-op), `{ return <something else> }` -> 2 (error), otherwise 0
func guardBody(b *ast.BlockStmt) int {
	if b == nil || len(b.List) != 1 {
		return 0
	}
	r, ok := b.List[0].(*ast.ReturnStmt)
	if !ok || len(r.Results) != 1 {
		return 0
	}
	if id, ok := r.Results[0].(*ast.Ident); ok && id.Name == "nil" {
		return 1
	}
	return 2
}

func methodDecl(f *facts, rel, recv, name string) *ast.FuncDecl {
	a := f.file(rel)
	if a == nil {
		return nil
	}
	for _, d := range a.Decls {
		fd, ok := d.(*ast.FuncDecl)
		if !ok || fd.Name.Name != name || fd.Recv == nil || len(fd.Recv.List) != 1 {
			continue
		}
		t := fd.Recv.List[0].Type
		if st, ok := t.(*ast.StarExpr); ok {
			t = st.X
		}
		if id, ok := t.(*ast.Ident); ok && id.Name == recv {
			return fd
		}
	}
	return nil
}

func srcYamlEdit(f *facts, o *out) {
	const rel = "syntax/encoding/yaml.go"
	boolName := func(b bool) string {
		if b {
			return "true"
		}
		return "false"
	}

	// ---- Set: the `if len(path) == 0 { ... }` block --------------------------------------------
	copies := map[string]bool{}
	movesLC := false
	styleCode := -1
	recognised := false
	if fd := methodDecl(f, rel, "YAMLSyntax", "Set"); fd != nil && fd.Body != nil {
		for _, st := range fd.Body.List {
			is, ok := st.(*ast.IfStmt)
			if !ok || !isLenCmp(is.Cond, "path", token.EQL, "0") {
				continue
			}
			recognised = true
			styleCode = 0
			for _, bs := range is.Body.List {
				if fld, ok := copiedField(bs); ok {
					copies[fld] = true
					if fld == "Style" {
						styleCode = 3
					}
					continue
				}
				if inner, ok := bs.(*ast.IfStmt); ok && inner.Else == nil && isLineCommentMove(inner) {
					movesLC = true
					continue
				}
				if inner, ok := bs.(*ast.IfStmt); ok {
					// a conditional copy: only `s.Style = new.Style` under a recognised condition, optionally with
					// `else { s.Style &^= yaml.TaggedStyle }`
					if len(inner.Body.List) == 1 {
						if fld, ok := copiedField(inner.Body.List[0]); ok && fld == "Style" {
							kind := condKind(inner.Cond)
							switch {
							case inner.Else == nil && kind == "scalar":
								styleCode = 2
							case inner.Else == nil && kind == "nonstr":
								styleCode = 1
							case kind == "nonstr" && isClearTagged(inner.Else):
								styleCode = 4
							default:
								recognised = false
							}
							continue
						}
					}
					recognised = false
					continue
				}
				if _, ok := bs.(*ast.ReturnStmt); ok {
					continue
				}
				recognised = false
			}
			break
		}
	}
	if recognised {
		for _, fld := range []string{"Content", "Kind", "Tag", "Value"} {
			o.add("Definition set_copies_%s : bool := %s.", lower(fld), boolName(copies[fld]))
		}
		o.add("Definition set_style_code : N := %d.", styleCode)
		o.add("Definition set_moves_line_comment : bool := %s.", boolName(movesLC))
		f.status["yamledit_set_fields"] = "ok"
	} else {
		for _, fld := range []string{"Content", "Kind", "Tag", "Value"} {
			o.add("Definition set_copies_%s : bool := true. (* default *)", lower(fld))
		}
		o.add("Definition set_style_code : N := 4. (* default *)")
		o.add("Definition set_moves_line_comment : bool := true. (* default *)")
		f.status["yamledit_set_fields"] = "unrecognised"
	}

	srcEnvRmImports(f, o)
	srcEnvRmRouting(f, o)
	srcFixKeyComment(f, o)

	// ---- Delete ---------------------------------------------------------------------------------------
	emptyCode, missingCode := -1, -1
	if fd := methodDecl(f, rel, "YAMLSyntax", "Delete"); fd != nil && fd.Body != nil {
		// (a) a guard `if len(path) == 0 { return ... }` before the first use of path[0]
		emptyCode = 0
		for _, st := range fd.Body.List {
			if is, ok := st.(*ast.IfStmt); ok && isLenCmp(is.Cond, "path", token.EQL, "0") && is.Else == nil {
				emptyCode = guardBody(is.Body)
				break
			}
			if usesPath0(st) {
				break
			}
		}
		// (b) in `case yaml.MappingNode:` a guard on i before `valueNode := s.Content[i+1]`
		ast.Inspect(fd.Body, func(n ast.Node) bool {
			cc, ok := n.(*ast.CaseClause)
			if !ok || len(cc.List) != 1 || !selIs(cc.List[0], "yaml", "MappingNode") {
				return true
			}
			code := 0
			found := false
			for _, st := range cc.Body {
				if as, ok := st.(*ast.AssignStmt); ok {
					for _, rhs := range as.Rhs {
						if ix, ok := rhs.(*ast.IndexExpr); ok && selIs(ix.X, "s", "Content") {
							if be, ok := ix.Index.(*ast.BinaryExpr); ok && be.Op == token.ADD {
								found = true
							}
						}
					}
					if found {
						break
					}
				}
				if is, ok := st.(*ast.IfStmt); ok && is.Else == nil && isIndexGuard(is.Cond) {
					code = guardBody(is.Body)
				}
			}
			if found {
				missingCode = code
			}
			return false
		})
	}
	if emptyCode >= 0 {
		o.add("Definition delete_empty_code : N := %d.", emptyCode)
		f.status["yamledit_delete_empty"] = "ok"
	} else {
		o.add("Definition delete_empty_code : N := 2. (* default *)")
		f.status["yamledit_delete_empty"] = "unrecognised"
	}
	if missingCode >= 0 {
		o.add("Definition delete_missing_code : N := %d.", missingCode)
		f.status["yamledit_delete_missing"] = "ok"
	} else {
		o.add("Definition delete_missing_code : N := 1. (* default *)")
		f.status["yamledit_delete_missing"] = "unrecognised"
	}
}

// cmd/esc/cli/env_rm.go: is there an `if len(path) != 0 && path[0] == "imports"` branch (Delete from the root)?
func srcEnvRmImports(f *facts, o *out) {
	const rel = "cmd/esc/cli/env_rm.go"
	a := f.file(rel)
	if a == nil {
		o.add("Definition rm_handles_imports : bool := true. (* default *)")
		f.status["envrm_imports"] = "unrecognised"
		return
	}
	found := false
	sawDelete := false
	ast.Inspect(a, func(n ast.Node) bool {
		switch x := n.(type) {
		case *ast.IfStmt:
			ast.Inspect(x.Cond, func(m ast.Node) bool {
				be, ok := m.(*ast.BinaryExpr)
				if !ok || be.Op != token.EQL {
					return true
				}
				ix, ok := be.X.(*ast.IndexExpr)
				if !ok {
					return true
				}
				id, ok := ix.X.(*ast.Ident)
				bl, ok2 := be.Y.(*ast.BasicLit)
				if ok && ok2 && id.Name == "path" && bl.Value == `"imports"` {
					found = true
				}
				return true
			})
		case *ast.SelectorExpr:
			if x.Sel.Name == "Delete" {
				sawDelete = true
			}
		}
		return true
	})
	if !sawDelete {
		o.add("Definition rm_handles_imports : bool := true. (* default *)")
		f.status["envrm_imports"] = "unrecognised"
		return
	}
	if found {
		o.add("Definition rm_handles_imports : bool := true.")
	} else {
		o.add("Definition rm_handles_imports : bool := false.")
	}
	f.status["envrm_imports"] = "ok"
}

// cmd/esc/cli/env_rm.go: (a) does the command refuse an empty path itself, before it reads the definition
// (`if len(path) == 0 { return <error> }` ahead of the GetEnvironment call), and (b) on which node does it call
// Delete for a path below "values": on the node Get found under "values" (`YAMLSyntax{Node: valuesNode}.Delete(nil,
// path)`), or from the root of the definition (`YAMLSyntax{Node: &docNode}.Delete(nil, append(resource.PropertyPath{
// "values"}, path...))`)?  Only in the second form does Delete repair the line comment of the key "values".
// A shape that is neither is reported as unrecognised and written as the unrepaired form, so that the side condition
// of the theorems about line comments (C15_src_params_ok) does not hold for a source the model cannot follow.
func srcEnvRmRouting(f *facts, o *out) {
	const rel = "cmd/esc/cli/env_rm.go"
	a := f.file(rel)
	if a == nil {
		o.add("Definition rm_guards_empty_path : bool := false. (* default *)")
		o.add("Definition rm_values_from_root : bool := false. (* default *)")
		f.status["envrm_empty_guard"] = "unrecognised"
		f.status["envrm_values_root"] = "unrecognised"
		return
	}
	// position of the first GetEnvironment call
	getEnv := token.NoPos
	ast.Inspect(a, func(n ast.Node) bool {
		if se, ok := n.(*ast.SelectorExpr); ok && se.Sel.Name == "GetEnvironment" && getEnv == token.NoPos {
			getEnv = se.Pos()
		}
		return true
	})
	guard, guardSeen := false, 0
	ast.Inspect(a, func(n ast.Node) bool {
		is, ok := n.(*ast.IfStmt)
		if !ok || is.Else != nil || is.Init != nil || !isLenCmp(is.Cond, "path", token.EQL, "0") {
			return true
		}
		guardSeen++
		if guardBody(is.Body) == 2 && getEnv != token.NoPos && is.Pos() < getEnv {
			guard = true
		}
		return true
	})
	switch {
	case getEnv == token.NoPos || guardSeen > 1 || (guardSeen == 1 && !guard):
		o.add("Definition rm_guards_empty_path : bool := false. (* default *)")
		f.status["envrm_empty_guard"] = "unrecognised"
	default:
		o.add("Definition rm_guards_empty_path : bool := %s.", map[bool]string{true: "true", false: "false"}[guard])
		f.status["envrm_empty_guard"] = "ok"
	}

	// the Delete calls: receiver `encoding.YAMLSyntax{Node: X}`, arguments (nil, P)
	isDocRoot := func(e ast.Expr) bool {
		u, ok := e.(*ast.UnaryExpr)
		if !ok || u.Op != token.AND {
			return false
		}
		id, ok := u.X.(*ast.Ident)
		return ok && id.Name == "docNode"
	}
	isValuesPath := func(e ast.Expr) bool { // append(resource.PropertyPath{"values"}, path...)
		c, ok := e.(*ast.CallExpr)
		if !ok || len(c.Args) != 2 || c.Ellipsis == token.NoPos {
			return false
		}
		if id, ok := c.Fun.(*ast.Ident); !ok || id.Name != "append" {
			return false
		}
		cl, ok := c.Args[0].(*ast.CompositeLit)
		if !ok || len(cl.Elts) != 1 || !selIs(cl.Type, "resource", "PropertyPath") {
			return false
		}
		bl, ok := cl.Elts[0].(*ast.BasicLit)
		if !ok || bl.Value != `"values"` {
			return false
		}
		id, ok := c.Args[1].(*ast.Ident)
		return ok && id.Name == "path"
	}
	nSub, nRootValues, nRootPath, nOther := 0, 0, 0, 0
	ast.Inspect(a, func(n ast.Node) bool {
		call, ok := n.(*ast.CallExpr)
		if !ok {
			return true
		}
		se, ok := call.Fun.(*ast.SelectorExpr)
		if !ok || se.Sel.Name != "Delete" {
			return true
		}
		cl, ok := se.X.(*ast.CompositeLit)
		if !ok || !selIs(cl.Type, "encoding", "YAMLSyntax") || len(cl.Elts) != 1 || len(call.Args) != 2 {
			nOther++
			return true
		}
		kv, ok := cl.Elts[0].(*ast.KeyValueExpr)
		if !ok {
			nOther++
			return true
		}
		argIsPath := false
		if id, ok := call.Args[1].(*ast.Ident); ok && id.Name == "path" {
			argIsPath = true
		}
		switch {
		case isDocRoot(kv.Value) && isValuesPath(call.Args[1]):
			nRootValues++
		case isDocRoot(kv.Value) && argIsPath:
			nRootPath++
		case argIsPath:
			if id, ok := kv.Value.(*ast.Ident); ok && id.Name == "valuesNode" {
				nSub++
			} else {
				nOther++
			}
		default:
			nOther++
		}
		return true
	})
	switch {
	case nOther == 0 && nRootPath <= 1 && nSub == 1 && nRootValues == 0:
		o.add("Definition rm_values_from_root : bool := false.")
		f.status["envrm_values_root"] = "ok"
	case nOther == 0 && nRootPath <= 1 && nSub == 0 && nRootValues == 1:
		o.add("Definition rm_values_from_root : bool := true.")
		f.status["envrm_values_root"] = "ok"
	default:
		o.add("Definition rm_values_from_root : bool := false. (* default *)")
		f.status["envrm_values_root"] = "unrecognised"
	}
}

// else { s.Style &^= yaml.TaggedStyle }
func isClearTagged(st ast.Stmt) bool {
	b, ok := st.(*ast.BlockStmt)
	if !ok || len(b.List) != 1 {
		return false
	}
	as, ok := b.List[0].(*ast.AssignStmt)
	return ok && as.Tok == token.AND_NOT_ASSIGN && len(as.Lhs) == 1 && len(as.Rhs) == 1 &&
		selIs(as.Lhs[0], "s", "Style") && selIs(as.Rhs[0], "yaml", "TaggedStyle")
}

// Do Set and Delete call fixKeyComment(keyNode, valueNode) after a successful recursive call in their mapping
// case, and does fixKeyComment have the recognised body?
func srcFixKeyComment(f *facts, o *out) {
	const rel = "syntax/encoding/yaml.go"
	helper := f.funcDecl(rel, "fixKeyComment")
	calls := func(name string) int {
		n := 0
		if fd := methodDecl(f, rel, "YAMLSyntax", name); fd != nil && fd.Body != nil {
			ast.Inspect(fd.Body, func(x ast.Node) bool {
				is, ok := x.(*ast.IfStmt)
				if !ok || is.Else != nil || len(is.Body.List) != 1 {
					return true
				}
				// if err == nil { fixKeyComment(keyNode, valueNode) }
				be, ok := is.Cond.(*ast.BinaryExpr)
				if !ok || be.Op != token.EQL {
					return true
				}
				if id, ok := be.X.(*ast.Ident); !ok || id.Name != "err" {
					return true
				}
				if id, ok := be.Y.(*ast.Ident); !ok || id.Name != "nil" {
					return true
				}
				es, ok := is.Body.List[0].(*ast.ExprStmt)
				if !ok {
					return true
				}
				call, ok := es.X.(*ast.CallExpr)
				if !ok || len(call.Args) != 2 {
					return true
				}
				if id, ok := call.Fun.(*ast.Ident); ok && id.Name == "fixKeyComment" {
					a0, ok0 := call.Args[0].(*ast.Ident)
					a1, ok1 := call.Args[1].(*ast.Ident)
					if ok0 && ok1 && a0.Name == "keyNode" && a1.Name == "valueNode" {
						n++
					}
				}
				return true
			})
		}
		return n
	}
	ns, nd := calls("Set"), calls("Delete")
	switch {
	case helper == nil && ns == 0 && nd == 0:
		o.add("Definition fixes_key_line_comment : bool := false.")
		f.status["yamledit_key_comment"] = "ok"
	case helper != nil && ns == 1 && nd == 1 && fixKeyCommentShape(helper):
		o.add("Definition fixes_key_line_comment : bool := true.")
		f.status["yamledit_key_comment"] = "ok"
	default:
		o.add("Definition fixes_key_line_comment : bool := true. (* default *)")
		f.status["yamledit_key_comment"] = "unrecognised"
	}
}

// the body of fixKeyComment: 4 statements — the early return on an empty key comment, the collection block, the
// conditional copy to the value, and the clearing of the key's comment
func fixKeyCommentShape(fd *ast.FuncDecl) bool {
	if fd.Body == nil || len(fd.Body.List) != 4 {
		return false
	}
	first, ok := fd.Body.List[0].(*ast.IfStmt)
	if !ok || guardBodyVoid(first.Body) == false {
		return false
	}
	be, ok := first.Cond.(*ast.BinaryExpr)
	if !ok || be.Op != token.EQL || !selIs(be.X, "key", "LineComment") {
		return false
	}
	coll, ok := fd.Body.List[1].(*ast.IfStmt)
	if !ok || len(coll.Body.List) != 2 {
		return false
	}
	cp, ok := fd.Body.List[2].(*ast.IfStmt)
	if !ok || len(cp.Body.List) != 1 {
		return false
	}
	as, ok := cp.Body.List[0].(*ast.AssignStmt)
	if !ok || len(as.Lhs) != 1 || !selIs(as.Lhs[0], "value", "LineComment") || !selIs(as.Rhs[0], "key", "LineComment") {
		return false
	}
	cl, ok := fd.Body.List[3].(*ast.AssignStmt)
	if !ok || len(cl.Lhs) != 1 || !selIs(cl.Lhs[0], "key", "LineComment") {
		return false
	}
	bl, ok := cl.Rhs[0].(*ast.BasicLit)
	return ok && bl.Value == `""`
}

func guardBodyVoid(b *ast.BlockStmt) bool {
	if b == nil || len(b.List) != 1 {
		return false
	}
	r, ok := b.List[0].(*ast.ReturnStmt)
	return ok && len(r.Results) == 0
}

func lower(s string) string {
	b := []byte(s)
	if len(b) > 0 && b[0] >= 'A' && b[0] <= 'Z' {
		b[0] += 'a' - 'A'
	}
	return string(b)
}

// `new.Kind == yaml.ScalarNode` -> "scalar"; `new.Kind == yaml.ScalarNode && new.Tag != "!!str"` -> "nonstr"
func condKind(e ast.Expr) string {
	isScalar := func(e ast.Expr) bool {
		be, ok := e.(*ast.BinaryExpr)
		return ok && be.Op == token.EQL && selIs(be.X, "new", "Kind") && selIs(be.Y, "yaml", "ScalarNode")
	}
	isNonStr := func(e ast.Expr) bool {
		be, ok := e.(*ast.BinaryExpr)
		if !ok || be.Op != token.NEQ || !selIs(be.X, "new", "Tag") {
			return false
		}
		bl, ok := be.Y.(*ast.BasicLit)
		return ok && bl.Value == `"!!str"`
	}
	if isScalar(e) {
		return "scalar"
	}
	if be, ok := e.(*ast.BinaryExpr); ok && be.Op == token.LAND && isScalar(be.X) && isNonStr(be.Y) {
		return "nonstr"
	}
	return ""
}

// i == len(s.Content) or i >= len(s.Content)
func isIndexGuard(e ast.Expr) bool {
	be, ok := e.(*ast.BinaryExpr)
	if !ok || (be.Op != token.EQL && be.Op != token.GEQ) {
		return false
	}
	if id, ok := be.X.(*ast.Ident); !ok || id.Name != "i" {
		return false
	}
	call, ok := be.Y.(*ast.CallExpr)
	if !ok || len(call.Args) != 1 {
		return false
	}
	if id, ok := call.Fun.(*ast.Ident); !ok || id.Name != "len" {
		return false
	}
	return selIs(call.Args[0], "s", "Content")
}

func usesPath0(st ast.Stmt) bool {
	used := false
	ast.Inspect(st, func(n ast.Node) bool {
		if ix, ok := n.(*ast.IndexExpr); ok {
			if id, ok := ix.X.(*ast.Ident); ok && id.Name == "path" {
				if bl, ok := ix.Index.(*ast.BasicLit); ok && bl.Value == "0" {
					used = true
				}
			}
		}
		return !used
	})
	return used
}

// the block that deals with the line comment of a node that has become a block collection:
//
//	if new.Kind != yaml.ScalarNode && s.Style&yaml.FlowStyle == 0 && s.Node.LineComment != "" {
//		if len(s.Content) == 0 {
//			s.Style |= yaml.FlowStyle
//		} else {
//			if first := s.Content[0]; first.HeadComment == "" { first.HeadComment = s.Node.LineComment }
//			s.Node.LineComment = ""
//		}
//	}
func isLineCommentMove(is *ast.IfStmt) bool {
	// condition: a conjunction that starts with new.Kind != yaml.ScalarNode
	e := is.Cond
	for {
		be, ok := e.(*ast.BinaryExpr)
		if !ok {
			return false
		}
		if be.Op == token.LAND {
			e = be.X
			continue
		}
		if be.Op != token.NEQ || !selIs(be.X, "new", "Kind") || !selIs(be.Y, "yaml", "ScalarNode") {
			return false
		}
		break
	}
	if len(is.Body.List) != 1 {
		return false
	}
	sw, ok := is.Body.List[0].(*ast.IfStmt)
	if !ok || sw.Init != nil || len(sw.Body.List) != 1 {
		return false
	}
	// len(s.Content) == 0
	c, ok := sw.Cond.(*ast.BinaryExpr)
	if !ok || c.Op != token.EQL {
		return false
	}
	call, ok := c.X.(*ast.CallExpr)
	if !ok || len(call.Args) != 1 || !selIs(call.Args[0], "s", "Content") {
		return false
	}
	if bl, ok := c.Y.(*ast.BasicLit); !ok || bl.Value != "0" {
		return false
	}
	// then: s.Style |= yaml.FlowStyle
	fl, ok := sw.Body.List[0].(*ast.AssignStmt)
	if !ok || fl.Tok != token.OR_ASSIGN || len(fl.Lhs) != 1 || len(fl.Rhs) != 1 ||
		!selIs(fl.Lhs[0], "s", "Style") || !selIs(fl.Rhs[0], "yaml", "FlowStyle") {
		return false
	}
	els, ok := sw.Else.(*ast.BlockStmt)
	if !ok || len(els.List) != 2 {
		return false
	}
	isNodeLC := func(e ast.Expr) bool {
		s, ok := e.(*ast.SelectorExpr)
		return ok && s.Sel.Name == "LineComment" && selIs(s.X, "s", "Node")
	}
	// if first := s.Content[0]; first.HeadComment == "" { first.HeadComment = s.Node.LineComment }
	in, ok := els.List[0].(*ast.IfStmt)
	if !ok || in.Init == nil || in.Else != nil || len(in.Body.List) != 1 {
		return false
	}
	as, ok := in.Body.List[0].(*ast.AssignStmt)
	if !ok || len(as.Lhs) != 1 || len(as.Rhs) != 1 || !selIs(as.Lhs[0], "first", "HeadComment") || !isNodeLC(as.Rhs[0]) {
		return false
	}
	// s.Node.LineComment = ""
	cl, ok := els.List[1].(*ast.AssignStmt)
	if !ok || len(cl.Lhs) != 1 || len(cl.Rhs) != 1 || !isNodeLC(cl.Lhs[0]) {
		return false
	}
	bl, ok := cl.Rhs[0].(*ast.BasicLit)
	return ok && bl.Value == `""`
}
