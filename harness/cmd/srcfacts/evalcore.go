package main

// SrcEval (C01 C02 C03 C05 C06 C07 C09 C10 C11): the structure of the evaluator core — eval/value.go, eval/eval.go,
// DecryptSecrets of eval/crypt.go, CopyForEnv of environment.go — as far as the models coq/Model/Chain.v and
// coq/Model/Eval.v restate it.  Written to coq/Src/SrcEval.v, compared with what the models assume in
// coq/Proofs/EvalSrc.v (by computation), named as obligations in coq/Properties/Cxx_src.v.
//
// This file has two halves.
//
//   1. An analysis kit over go/ast (no type checker).  Per function: a parent map; the assignments of every local, found
//      through the parser's object resolution (shadowed names are distinct objects); the VALUE of a local at a use, by a
//      symbolic execution of the enclosing statements for that one variable; a CANONICAL PRINTER of expressions and
//      statements; the PATH CONDITION of a node (the literals that follow from enclosing ifs / switch clauses and from
//      preceding guards that leave); and, built on these, the BEHAVIOUR TABLE of a function: one line
//      `conditions => statement` per effect or return, as a sorted set.
//      The table does not change under
//        - comments, blank lines, parentheses;
//        - renaming the receiver, parameters, locals: receiver = $r, parameters = $p0.., a local prints as the expression
//          that defines it — inline if that expression is call-free or the local is read exactly once right after its
//          definition, else as a label @callee (defined once in a `where` line); range variables are $k(X) / $v(X); a local
//          assigned in the branches of an if / switch prints as ite(c, a, b) / sw(x){...}; a local updated in a loop, a
//          struct value, an assigned parameter print as %[first definition] / %pN and their assignments are entries;
//        - extracting a sub-expression into a local (same mechanism) and inlining such a local;
//        - logging statements (log.*, slog.*, glog/klog.*, fmt.Print*, fmt.Fprint*, print, println);
//        - the wording and position arguments of diagnostics (every e.error / e.errorf / e.accessorError(f) /
//          syntax.Error call prints as `diag`), the text of fmt.Errorf messages;
//        - the order of keyed fields in struct literals; the order of the pairs of a parallel assignment;
//        - reordering statements (the table is a set; the orders the models rely on are separate boolean facts);
//        - `if c { return ... }; S` vs `if !c { S }`, `if a { X } else { Y }` vs `if !a { Y } else { X }`,
//          `if a && b { S }` vs `if a { if b { S } }` (path conditions are sets of literals, negations pushed inwards).
//      It changes under everything else: another callee, argument, operator, field, constant; an added or removed guard,
//      assignment, call, return, loop exit; a condition that became weaker or stronger.
//      NOT robust (the table changes although behaviour may not; REPORT.md): a range loop rewritten as an index loop;
//      a switch rewritten as an if chain; code moved into a helper function; two branches merged into a shared tail (or a
//      shared tail duplicated); reordered operands of a `||` that guards a then-branch; a single-use local whose definition
//      and use are separated by control flow.
//      Limits of the kit (sound direction: they make a fact unrecognised, never silently true): goto / labels, select,
//      closures that assign captured variables -> marker `?!...` in the text -> the fact is emitted empty with status
//      "unrecognised: ...".  Known blind spots: path conditions are texts evaluated where the guard stands (a field that
//      is mutated between a guard and the guarded statement is not noticed unless the mutation is itself an entry, which
//      it is, but its ORDER is only checked where an order fact says so); callees outside the listed functions (v.is,
//      newExpr, package schema, esc.FromJSON, Value.ToJSON, the validator, decodeCiphertext — the latter has SrcEnvelope)
//      are names only.
//
//   2. The facts (func srcEval): for each function the models restate, its table (list string) under the name ev_<function>,
//      with a comment naming the model definition it is the source of; the dispatch table of evaluateExpr as pairs; the path
//      condition of the call of provider.Open; call-site counts; and nine order facts (booleans).  Data is emitted as
//      observed; the expectation lives in Coq.  A function that is missing or unreadable yields [] / false and a status
//      "unrecognised: why", which breaks the obligation.

import (
	"bytes"
	"fmt"
	"go/ast"
	"go/printer"
	"go/token"
	"sort"
	"strings"
)

func init() { extraModules = append(extraModules, module{"SrcEval", srcEval}) }

// =====================================================================================================================
// 1. analysis kit
// =====================================================================================================================

type ecAssignKind int

const (
	ecDef     ecAssignKind = iota // x := e, var x = e, x = e, x, y := f()
	ecZero                        // var x T
	ecRangeK                      // for x, _ := range X
	ecRangeV                      // for _, x := range X
	ecTSwitch                     // switch x := y.(type)
	ecUpdate                      // x++, x += e, &x taken, assignment inside a closure: value not expressible
)

type ecAssign struct {
	kind   ecAssignKind
	stmt   ast.Node // the statement that assigns
	rhs    ast.Expr // ecDef: the right-hand side (for tuples: the call); ecRange*: the ranged expression; ecTSwitch: y
	idx    int      // tuple position, -1 for a single value
	typ    ast.Expr // ecZero: the declared type
	single bool     // the local is a single-use name of a sub-expression (set lazily)
	pos    token.Pos
	end    token.Pos
}

type ecFn struct {
	fset    *token.FileSet
	fd      *ast.FuncDecl
	parent  map[ast.Node]ast.Node
	params  map[*ast.Object]string
	assigns map[*ast.Object][]*ecAssign
	mutable map[*ast.Object]bool
	results map[*ast.Object]int // named results
	uses    map[*ast.Object][]*ast.Ident
	mutName map[*ast.Object]string
	hasGoto bool
	labels  map[string]string // bracket content -> label
	defs    map[string]string // label -> content (abbreviated)
	depth   int               // recursion guard of the printer
}

func ecNewFn(fset *token.FileSet, fd *ast.FuncDecl) *ecFn {
	fn := &ecFn{fset: fset, fd: fd, parent: map[ast.Node]ast.Node{}, params: map[*ast.Object]string{},
		assigns: map[*ast.Object][]*ecAssign{}, mutable: map[*ast.Object]bool{}, results: map[*ast.Object]int{}, uses: map[*ast.Object][]*ast.Ident{}, mutName: map[*ast.Object]string{}}
	var stack []ast.Node
	ast.Inspect(fd, func(n ast.Node) bool {
		if n == nil {
			stack = stack[:len(stack)-1]
			return true
		}
		if len(stack) > 0 {
			fn.parent[n] = stack[len(stack)-1]
		}
		stack = append(stack, n)
		return true
	})
	if fd.Recv != nil {
		for _, fld := range fd.Recv.List {
			for _, n := range fld.Names {
				if n.Obj != nil {
					fn.params[n.Obj] = "$r"
				}
			}
		}
	}
	i := 0
	for _, fld := range fd.Type.Params.List {
		if len(fld.Names) == 0 {
			i++
		}
		for _, n := range fld.Names {
			if n.Obj != nil {
				fn.params[n.Obj] = fmt.Sprintf("$p%d", i)
			}
			i++
		}
	}
	if fd.Type.Results != nil {
		i = 0
		for _, fld := range fd.Type.Results.List {
			for _, n := range fld.Names {
				if n.Obj != nil {
					// a named result starts as the zero value and may be assigned
					fn.add(n.Obj, &ecAssign{kind: ecZero, stmt: fld, typ: fld.Type, idx: -1, pos: fd.Body.Pos(), end: fd.Body.Pos()})
					fn.results[n.Obj] = i
				}
				i++
			}
		}
	}
	fn.collect()
	for o, l := range fn.assigns {
		if fn.singleUse(o) {
			l[0].single = true
		}
	}
	return fn
}

func (fn *ecFn) singleTarget(l ast.Expr) bool {
	if id, ok := l.(*ast.Ident); ok {
		if o := fn.local(id); o != nil {
			a := fn.assigns[o]
			return len(a) == 1 && a[0].single
		}
	}
	return false
}

func (fn *ecFn) add(o *ast.Object, a *ecAssign) { fn.assigns[o] = append(fn.assigns[o], a) }

func (fn *ecFn) local(id *ast.Ident) *ast.Object {
	o := id.Obj
	if o == nil || o.Kind != ast.Var {
		return nil
	}
	if o.Pos() < fn.fd.Pos() || o.Pos() > fn.fd.End() {
		return nil
	}
	if _, isParam := fn.params[o]; isParam {
		return nil
	}
	return o
}

func (fn *ecFn) inFuncLit(n ast.Node) ast.Node {
	for p := fn.parent[n]; p != nil; p = fn.parent[p] {
		if fl, ok := p.(*ast.FuncLit); ok {
			return fl
		}
	}
	return nil
}

func (fn *ecFn) collect() {
	ast.Inspect(fn.fd.Body, func(n ast.Node) bool {
		switch x := n.(type) {
		case *ast.AssignStmt:
			if p, ok := fn.parent[x].(*ast.TypeSwitchStmt); ok && p.Assign == x {
				if id, ok := x.Lhs[0].(*ast.Ident); ok && id.Obj != nil && len(x.Rhs) == 1 {
					if ta, ok := x.Rhs[0].(*ast.TypeAssertExpr); ok {
						fn.add(id.Obj, &ecAssign{kind: ecTSwitch, stmt: x, rhs: ta.X, idx: -1, pos: x.Pos(), end: x.End()})
					}
				}
				return true
			}
			for i, l := range x.Lhs {
				id, ok := l.(*ast.Ident)
				if !ok || id.Name == "_" {
					continue
				}
				o := fn.local(id)
				if o == nil {
					// assignment to a parameter / receiver variable itself: the canonical name no longer denotes the argument
					if id.Obj != nil {
						if _, isParam := fn.params[id.Obj]; isParam {
							// an assigned parameter is a mutable variable named after its position
							fn.params[id.Obj] = "%" + strings.TrimLeft(fn.params[id.Obj], "$%")
						}
					}
					continue
				}
				a := &ecAssign{kind: ecDef, stmt: x, idx: -1, pos: x.Pos(), end: x.End()}
				switch {
				case x.Tok != token.ASSIGN && x.Tok != token.DEFINE:
					a.kind = ecUpdate
				case len(x.Rhs) == len(x.Lhs):
					a.rhs = x.Rhs[i]
					if len(x.Lhs) > 1 {
						// parallel assignment a, b = e1, e2: every right-hand side is evaluated before any assignment;
						// fine as long as the other targets do not occur in this right-hand side (checked at resolution
						// by position: uses inside the statement resolve to the previous definition)
					}
				case len(x.Rhs) == 1:
					a.rhs, a.idx = x.Rhs[0], i
				default:
					a.kind = ecUpdate
				}
				if fl := fn.inFuncLit(x); fl != nil && !fn.declaredIn(o, fl) {
					a.kind = ecUpdate
				}
				fn.add(o, a)
			}
		case *ast.ValueSpec:
			for i, id := range x.Names {
				o := fn.local(id)
				if o == nil || id.Name == "_" {
					continue
				}
				a := &ecAssign{kind: ecZero, stmt: x, typ: x.Type, idx: -1, pos: x.Pos(), end: x.End()}
				if len(x.Values) == len(x.Names) {
					a.kind, a.rhs = ecDef, x.Values[i]
				} else if len(x.Values) == 1 {
					a.kind, a.rhs, a.idx = ecDef, x.Values[0], i
				}
				if fl := fn.inFuncLit(x); fl != nil && !fn.declaredIn(o, fl) {
					a.kind = ecUpdate
				}
				fn.add(o, a)
			}
		case *ast.FuncLit:
			k := 0
			for _, fld := range x.Type.Params.List {
				if len(fld.Names) == 0 {
					k++
				}
				for _, n := range fld.Names {
					if n.Obj != nil {
						fn.params[n.Obj] = fmt.Sprintf("$c%d", k)
					}
					k++
				}
			}
		case *ast.BranchStmt:
			if x.Tok == token.GOTO || x.Label != nil {
				fn.hasGoto = true
			}
		case *ast.LabeledStmt:
			fn.hasGoto = true
		case *ast.RangeStmt:
			if x.Tok == token.DEFINE || x.Tok == token.ASSIGN {
				if id, ok := x.Key.(*ast.Ident); ok && id.Name != "_" {
					if o := fn.local(id); o != nil {
						fn.add(o, &ecAssign{kind: ecRangeK, stmt: x, rhs: x.X, idx: -1, pos: x.Pos(), end: x.Body.Lbrace})
					}
				}
				if id, ok := x.Value.(*ast.Ident); ok && id.Name != "_" {
					if o := fn.local(id); o != nil {
						fn.add(o, &ecAssign{kind: ecRangeV, stmt: x, rhs: x.X, idx: -1, pos: x.Pos(), end: x.Body.Lbrace})
					}
				}
			}
		case *ast.IncDecStmt:
			if id, ok := x.X.(*ast.Ident); ok {
				if o := fn.local(id); o != nil {
					fn.add(o, &ecAssign{kind: ecUpdate, stmt: x, idx: -1, pos: x.Pos(), end: x.End()})
				}
			}
		case *ast.UnaryExpr:
			if x.Op == token.AND {
				if id, ok := x.X.(*ast.Ident); ok {
					if o := fn.local(id); o != nil {
						fn.add(o, &ecAssign{kind: ecUpdate, stmt: x, idx: -1, pos: x.Pos(), end: x.End()})
					}
				}
			}
		}
		return true
	})
	for _, l := range fn.assigns {
		sort.SliceStable(l, func(i, j int) bool { return l[i].end < l[j].end })
	}
	// uses: identifiers that read a local (everything but the left-hand sides of plain assignments / definitions)
	lhs := map[*ast.Ident]bool{}
	ast.Inspect(fn.fd.Body, func(n ast.Node) bool {
		switch x := n.(type) {
		case *ast.AssignStmt:
			if x.Tok == token.ASSIGN || x.Tok == token.DEFINE {
				for _, l := range x.Lhs {
					if id, ok := l.(*ast.Ident); ok {
						lhs[id] = true
					}
				}
			}
		case *ast.ValueSpec:
			for _, id := range x.Names {
				lhs[id] = true
			}
		case *ast.RangeStmt:
			if id, ok := x.Key.(*ast.Ident); ok {
				lhs[id] = true
			}
			if id, ok := x.Value.(*ast.Ident); ok {
				lhs[id] = true
			}
		case *ast.KeyValueExpr:
			// a struct field name in a composite literal is not a use (the parser resolves it like a variable)
			if cl, ok := fn.parent[x].(*ast.CompositeLit); ok {
				switch cl.Type.(type) {
				case *ast.MapType, *ast.ArrayType:
				default:
					if id, ok := x.Key.(*ast.Ident); ok {
						lhs[id] = true
					}
				}
			}
		}
		return true
	})
	ast.Inspect(fn.fd.Body, func(n ast.Node) bool {
		if id, ok := n.(*ast.Ident); ok && !lhs[id] {
			if o := fn.local(id); o != nil {
				fn.uses[o] = append(fn.uses[o], id)
			}
		}
		return true
	})
}

// singleUse: the local is defined once by a single-valued expression and read exactly once, not from inside a loop or a
// closure that does not contain the definition.  Such a local is a name for a sub-expression: it prints inline even if its
// definition contains a call, and its definition is not a statement of its own.
func (fn *ecFn) singleUse(o *ast.Object) bool {
	l := fn.assigns[o]
	if len(l) != 1 || l[0].kind != ecDef || l[0].idx >= 0 || len(fn.uses[o]) != 1 || fn.isMutable(o) {
		return false
	}
	use := fn.uses[o][0]
	// the definition is a statement of some block; the use must be evaluated unconditionally by a later statement of the
	// SAME block, with only simple statements (no control flow) in between: then definition and use are evaluated
	// under the same conditions, equally often
	def, ok := l[0].stmt.(ast.Stmt)
	if !ok {
		if vs, isSpec := l[0].stmt.(*ast.ValueSpec); isSpec {
			if ds, isDecl := fn.parent[fn.parent[vs]].(*ast.DeclStmt); isDecl {
				def, ok = ds, true
			}
		}
	}
	if !ok {
		return false
	}
	var list []ast.Stmt
	switch b := fn.parent[def].(type) {
	case *ast.BlockStmt:
		list = b.List
	case *ast.CaseClause:
		list = b.Body
	default:
		return false
	}
	seen := false
	for _, st := range list {
		if st == def {
			seen = true
			continue
		}
		if !seen {
			continue
		}
		if fn.encloses(st, use) {
			return fn.unconditionalIn(use, st)
		}
		switch st.(type) {
		case *ast.AssignStmt, *ast.ExprStmt, *ast.DeclStmt, *ast.IncDecStmt:
		default:
			return false
		}
	}
	return false
}

func (fn *ecFn) encloses(outer, inner ast.Node) bool {
	for p := inner; p != nil; p = fn.parent[p] {
		if p == outer {
			return true
		}
	}
	return false
}

// pure: the expression contains no call (other than a conversion / len / cap), no function literal, no allocation whose
// identity matters, no receive.
var ecPureCalls = map[string]bool{"len": true, "cap": true, "string": true, "int": true, "uint32": true, "byte": true,
	"int64": true, "uint64": true, "float64": true, "rune": true}

func ecPure(e ast.Expr) bool {
	pure := true
	ast.Inspect(e, func(n ast.Node) bool {
		switch x := n.(type) {
		case *ast.CallExpr:
			if id, ok := x.Fun.(*ast.Ident); ok && ecPureCalls[id.Name] {
				return true
			}
			if _, ok := x.Fun.(*ast.ParenExpr); ok { // (*value)(nil)
				return true
			}
			pure = false
		case *ast.FuncLit:
			pure = false
		case *ast.UnaryExpr:
			if x.Op == token.ARROW {
				pure = false
			}
			if x.Op == token.AND {
				if _, ok := x.X.(*ast.CompositeLit); ok {
					pure = false
				}
			}
		case *ast.CompositeLit:
			// a map / slice literal allocates; a struct value does not matter
			switch x.Type.(type) {
			case *ast.MapType, *ast.ArrayType:
				pure = false
			}
		}
		return pure
	})
	return pure
}

// ---------------------------------------------------------------------------------------------------------------------
// values of locals
//
// A local is MUTABLE if one of its assignments is an update (x++, x += e, &x, assignment from inside a closure that does
// not declare it), sits in a loop that does not contain its declaration, or is the post statement of a for loop; or if it
// is a struct VALUE (var x T / x := T{...}) — its methods may mutate it in place.  A mutable local prints everywhere as
// %[first definition] and its assignments are printed as statements.
// Every other local prints, at each use, as the value it has there: a symbolic execution of the enclosing statements for
// that one variable, with ite(c, a, b) at the join after an if and sw{...} after a switch.

func (fn *ecFn) declaredIn(o *ast.Object, n ast.Node) bool {
	return o.Pos() >= n.Pos() && o.Pos() <= n.End()
}

func (fn *ecFn) isMutable(o *ast.Object) bool {
	if m, ok := fn.mutable[o]; ok {
		return m
	}
	m := false
	for _, a := range fn.assigns[o] {
		if a.kind == ecUpdate {
			m = true
		}
		if a.kind == ecZero && a.typ != nil && ecStructLike(a.typ) {
			m = true
		}
		if a.kind == ecDef && a.rhs != nil && a.idx < 0 {
			if cl, ok := a.rhs.(*ast.CompositeLit); ok {
				switch cl.Type.(type) {
				case *ast.MapType, *ast.ArrayType:
				default:
					m = true
				}
			}
		}
		for p := fn.parent[a.stmt]; p != nil; p = fn.parent[p] {
			switch q := p.(type) {
			case *ast.ForStmt:
				if q.Post != nil && fn.encloses(q.Post, a.stmt) {
					m = true
				}
				if !fn.declaredIn(o, q) {
					m = true
				}
			case *ast.RangeStmt:
				if !fn.declaredIn(o, q) {
					m = true
				}
			}
		}
	}
	fn.mutable[o] = m
	return m
}

func ecStructLike(t ast.Expr) bool {
	switch x := t.(type) {
	case *ast.SelectorExpr:
		return true
	case *ast.Ident:
		switch x.Name {
		case "bool", "string", "int", "any", "error", "int64", "uint32", "byte", "float64", "uint64", "rune":
			return false
		}
		return true
	}
	return false
}

func (fn *ecFn) mutableName(o *ast.Object) string {
	if n, ok := fn.mutName[o]; ok {
		return n
	}
	fn.mutName[o] = "%[...]" // cycle guard
	l := fn.assigns[o]
	n := "%[?]"
	if i, ok := fn.results[o]; ok {
		n = fmt.Sprintf("%%res%d", i)
	} else if len(l) > 0 {
		first := l[0]
		for _, a := range l {
			if a.pos < first.pos {
				first = a
			}
		}
		t := fn.assignText(first)
		t = strings.TrimSuffix(strings.TrimPrefix(t, "‹"), "›")
		n = "%[" + t + "]"
	}
	fn.mutName[o] = n
	return n
}

func (fn *ecFn) assignsWithin(o *ast.Object, n ast.Node) []*ecAssign {
	var out []*ecAssign
	for _, a := range fn.assigns[o] {
		if a.pos >= n.Pos() && a.end <= n.End() {
			out = append(out, a)
		}
	}
	return out
}

// after: the value of o after statement s, given its value before.
func (fn *ecFn) after(s ast.Stmt, o *ast.Object, prev string) string {
	if s == nil {
		return prev
	}
	in := fn.assignsWithin(o, s)
	if len(in) == 0 {
		return prev
	}
	switch x := s.(type) {
	case *ast.AssignStmt, *ast.DeclStmt:
		return fn.assignText(in[len(in)-1])
	case *ast.BlockStmt:
		for _, c := range x.List {
			prev = fn.after(c, o, prev)
		}
		return prev
	case *ast.LabeledStmt:
		return fn.after(x.Stmt, o, prev)
	case *ast.IfStmt:
		p := fn.after(x.Init, o, prev)
		t := fn.after(x.Body, o, p)
		e := p
		elseExits := false
		switch eb := x.Else.(type) {
		case *ast.BlockStmt:
			e = fn.after(eb, o, p)
			elseExits = ecAlwaysExits(eb)
		case *ast.IfStmt:
			e = fn.after(eb, o, p)
		}
		thenExits := ecAlwaysExits(x.Body)
		switch {
		case thenExits && elseExits:
			return "?!unreachable"
		case thenExits:
			return e
		case elseExits:
			return t
		case t == e:
			return t
		}
		return "ite(" + fn.expr(x.Cond) + ", " + t + ", " + e + ")"
	case *ast.SwitchStmt:
		p := fn.after(x.Init, o, prev)
		tag := "true"
		if x.Tag != nil {
			tag = fn.expr(x.Tag)
		}
		return fn.afterClauses(x.Body, o, p, tag)
	case *ast.TypeSwitchStmt:
		p := fn.after(x.Init, o, prev)
		subject := ""
		switch a := x.Assign.(type) {
		case *ast.AssignStmt:
			subject = fn.expr(a.Rhs[0])
		case *ast.ExprStmt:
			subject = fn.expr(a.X)
		}
		return fn.afterClauses(x.Body, o, p, subject)
	}
	return "?!after-" + fmt.Sprintf("%T", s)
}

func (fn *ecFn) afterClauses(body *ast.BlockStmt, o *ast.Object, prev, subject string) string {
	var parts []string
	hasDefault := false
	for _, c := range body.List {
		cc, ok := c.(*ast.CaseClause)
		if !ok {
			return "?!clause"
		}
		v := prev
		for _, s := range cc.Body {
			v = fn.after(s, o, v)
		}
		label := "default"
		if cc.List == nil {
			hasDefault = true
		} else {
			ls := make([]string, len(cc.List))
			for i, e := range cc.List {
				ls[i] = fn.expr(e)
			}
			sort.Strings(ls)
			label = strings.Join(ls, "|")
		}
		if len(cc.Body) > 0 {
			if blk := (&ast.BlockStmt{List: cc.Body}); ecAlwaysExits(blk) {
				if _, isBranch := cc.Body[len(cc.Body)-1].(*ast.BranchStmt); !isBranch {
					continue // the clause leaves the function
				}
			}
		}
		parts = append(parts, label+": "+v)
	}
	if !hasDefault {
		parts = append(parts, "default: "+prev)
	}
	sort.Strings(parts)
	return "sw(" + subject + "){" + strings.Join(parts, " | ") + "}"
}

// resolve gives the canonical text of the value local o has where `use` is evaluated.
func (fn *ecFn) resolve(o *ast.Object, use ast.Node) string {
	if fn.hasGoto {
		return "?!goto"
	}
	if fn.isMutable(o) {
		return fn.mutableName(o)
	}
	// the chain of ancestors of the use, outermost first
	var chain []ast.Node
	for p := use; p != nil; p = fn.parent[p] {
		chain = append(chain, p)
	}
	for i, j := 0, len(chain)-1; i < j; i, j = i+1, j-1 {
		chain[i], chain[j] = chain[j], chain[i]
	}
	prev := "?!undefined"
	for i := 0; i+1 < len(chain); i++ {
		n, c := chain[i], chain[i+1]
		var list []ast.Stmt
		switch q := n.(type) {
		case *ast.BlockStmt:
			list = q.List
		case *ast.CaseClause:
			list = q.Body
		case *ast.CommClause:
			list = q.Body
		case *ast.IfStmt:
			if c != ast.Node(q.Init) {
				prev = fn.after(q.Init, o, prev)
			}
		case *ast.SwitchStmt:
			if c != ast.Node(q.Init) {
				prev = fn.after(q.Init, o, prev)
			}
		case *ast.TypeSwitchStmt:
			if c != ast.Node(q.Init) {
				prev = fn.after(q.Init, o, prev)
			}
			if c == ast.Node(q.Body) {
				for _, a := range fn.assigns[o] {
					if a.kind == ecTSwitch && a.stmt == ast.Node(q.Assign) {
						prev = fn.assignText(a)
					}
				}
			}
		case *ast.ForStmt:
			if c != ast.Node(q.Init) {
				prev = fn.after(q.Init, o, prev)
			}
		case *ast.RangeStmt:
			if c == ast.Node(q.Body) {
				for _, a := range fn.assigns[o] {
					if (a.kind == ecRangeK || a.kind == ecRangeV) && a.stmt == ast.Node(q) {
						prev = fn.assignText(a)
					}
				}
			}
		case *ast.FuncLit:
			if !fn.declaredIn(o, q) && len(fn.assigns[o]) != 1 {
				return "?!captured"
			}
			if !fn.declaredIn(o, q) && len(fn.assigns[o]) == 1 {
				prev = fn.assignText(fn.assigns[o][0])
			}
		}
		for _, s := range list {
			if ast.Node(s) == c {
				break
			}
			prev = fn.after(s, o, prev)
		}
	}
	return prev
}

func (fn *ecFn) assignText(a *ecAssign) string {
	switch a.kind {
	case ecZero:
		if a.typ == nil {
			return "zero"
		}
		return "zero(" + fn.expr(a.typ) + ")"
	case ecRangeK:
		return "$k(" + fn.expr(a.rhs) + ")"
	case ecRangeV:
		return "$v(" + fn.expr(a.rhs) + ")"
	case ecTSwitch:
		return fn.expr(a.rhs) + ".(type)"
	case ecDef:
		s := fn.expr(a.rhs)
		if a.idx >= 0 {
			// comma-ok forms of a type assertion / map index are call-free
			switch a.rhs.(type) {
			case *ast.TypeAssertExpr, *ast.IndexExpr:
				if ecPure(a.rhs) {
					if a.idx == 0 {
						return s
					}
					return "ok(" + s + ")"
				}
			}
			return fmt.Sprintf("‹%s›#%d", s, a.idx)
		}
		if ecPure(a.rhs) || a.single {
			return s
		}
		return "‹" + s + "›"
	}
	return "?!updated"
}

func (fn *ecFn) assignRHS(e ast.Expr) string { return "‹" + fn.expr(e) + "›" }

func (fn *ecFn) raw(n ast.Node) string {
	var b bytes.Buffer
	printer.Fprint(&b, fn.fset, n)
	return strings.Join(strings.Fields(b.String()), " ")
}

// expr prints an expression canonically.
func (fn *ecFn) expr(e ast.Expr) string {
	fn.depth++
	defer func() { fn.depth-- }()
	if fn.depth > 200 {
		return "?!deep"
	}
	switch x := e.(type) {
	case nil:
		return ""
	case *ast.Ident:
		if x.Obj != nil {
			if p, ok := fn.params[x.Obj]; ok {
				return p
			}
		}
		if o := fn.local(x); o != nil {
			return fn.resolve(o, x)
		}
		return x.Name
	case *ast.ParenExpr:
		return fn.expr(x.X)
	case *ast.BasicLit:
		return x.Value
	case *ast.SelectorExpr:
		return fn.expr(x.X) + "." + x.Sel.Name
	case *ast.StarExpr:
		return "*" + fn.expr(x.X)
	case *ast.UnaryExpr:
		if x.Op == token.NOT {
			return ecNegate(fn.expr(x.X))
		}
		return x.Op.String() + fn.expr(x.X)
	case *ast.BinaryExpr:
		return "(" + fn.expr(x.X) + " " + x.Op.String() + " " + fn.expr(x.Y) + ")"
	case *ast.CallExpr:
		if ecIsDiag(x) {
			return "diag"
		}
		args := make([]string, len(x.Args))
		for i, a := range x.Args {
			args[i] = fn.expr(a)
		}
		if sel, ok := x.Fun.(*ast.SelectorExpr); ok && sel.Sel.Name == "Errorf" && len(x.Args) > 0 {
			if _, ok := x.Args[0].(*ast.BasicLit); ok {
				args[0] = "_" // the text of an error message is not modelled
			}
		}
		s := ""
		if _, ok := x.Fun.(*ast.ParenExpr); ok {
			s = "(" + fn.expr(x.Fun) + ")"
		} else {
			s = fn.expr(x.Fun)
		}
		s += "(" + strings.Join(args, ", ")
		if x.Ellipsis.IsValid() {
			s += "..."
		}
		return s + ")"
	case *ast.IndexExpr:
		return fn.expr(x.X) + "[" + fn.expr(x.Index) + "]"
	case *ast.SliceExpr:
		return fn.expr(x.X) + "[" + fn.expr(x.Low) + ":" + fn.expr(x.High) + "]"
	case *ast.TypeAssertExpr:
		if x.Type == nil {
			return fn.expr(x.X) + ".(type)"
		}
		return fn.expr(x.X) + ".(" + fn.expr(x.Type) + ")"
	case *ast.KeyValueExpr:
		return fn.expr(x.Key) + ": " + fn.expr(x.Value)
	case *ast.CompositeLit:
		elts := make([]string, len(x.Elts))
		keyed := len(x.Elts) > 0
		structLit := true
		switch x.Type.(type) {
		case *ast.MapType, *ast.ArrayType:
			structLit = false
		}
		for i, el := range x.Elts {
			if kv, ok := el.(*ast.KeyValueExpr); ok && structLit {
				if id, ok := kv.Key.(*ast.Ident); ok {
					elts[i] = id.Name + ": " + fn.expr(kv.Value) // a field name, not a variable
					continue
				}
			}
			keyed = false
			elts[i] = fn.expr(el)
		}
		if keyed {
			sort.Strings(elts)
		}
		return fn.expr(x.Type) + "{" + strings.Join(elts, ", ") + "}"
	case *ast.FuncLit:
		return "func{" + strings.Join(fn.stmts(x.Body.List), "; ") + "}"
	case *ast.ArrayType:
		return "[" + fn.expr(x.Len) + "]" + fn.expr(x.Elt)
	case *ast.MapType:
		return "map[" + fn.expr(x.Key) + "]" + fn.expr(x.Value)
	case *ast.Ellipsis:
		return "..." + fn.expr(x.Elt)
	case *ast.InterfaceType, *ast.StructType, *ast.FuncType, *ast.ChanType:
		return fn.raw(x)
	case *ast.IndexListExpr:
		return fn.raw(x)
	}
	return "?!" + fn.raw(e)
}

// ecNegate negates a canonical boolean text.
func ecNegate(s string) string {
	if strings.HasPrefix(s, "!") {
		return s[1:]
	}
	if strings.HasPrefix(s, "(") && strings.HasSuffix(s, ")") {
		// top-level binary comparison?
		l, op, r, ok := ecSplitBinary(s)
		if ok {
			switch op {
			case "==":
				return "(" + l + " != " + r + ")"
			case "!=":
				return "(" + l + " == " + r + ")"
			case "<":
				return "(" + l + " >= " + r + ")"
			case ">=":
				return "(" + l + " < " + r + ")"
			case ">":
				return "(" + l + " <= " + r + ")"
			case "<=":
				return "(" + l + " > " + r + ")"
			}
		}
	}
	return "!" + s
}

// ecSplitBinary splits "(L op R)" at its top-level operator.
func ecSplitBinary(s string) (l, op, r string, ok bool) {
	if !strings.HasPrefix(s, "(") || !strings.HasSuffix(s, ")") {
		return
	}
	in := s[1 : len(s)-1]
	depth := 0
	inStr := byte(0)
	for i := 0; i < len(in); i++ {
		c := in[i]
		if inStr != 0 {
			if c == '\\' {
				i++
			} else if c == inStr {
				inStr = 0
			}
			continue
		}
		switch c {
		case '"', '`', '\'':
			inStr = c
		case '(', '[', '{':
			depth++
		case ')', ']', '}':
			depth--
			if depth < 0 {
				return
			}
		case ' ':
			if depth == 0 {
				rest := in[i+1:]
				j := strings.IndexByte(rest, ' ')
				if j > 0 {
					cand := rest[:j]
					switch cand {
					case "==", "!=", "<", "<=", ">", ">=", "||", "&&", "+", "-", "*", "/", "%", "&", "|", "^", "<<", ">>", "&^":
						// "‹" and "›" are multi-byte and never look like a space; a top-level space is an operator boundary
						return in[:i], cand, rest[j+1:], true
					}
				}
			}
		}
	}
	return
}

// ecSplitAll splits a canonical boolean text at its top-level `op` ("||" or "&&"), recursively.
func ecSplitAll(s, op string) []string {
	l, o, r, ok := ecSplitBinary(s)
	if ok && o == op {
		return append(ecSplitAll(l, op), ecSplitAll(r, op)...)
	}
	return []string{s}
}

// ecLitsTrue: literals known when s holds; ecLitsFalse: literals known when s does not hold.
func ecLitsTrue(s string) []string {
	if strings.HasPrefix(s, "!") {
		return ecLitsFalse(s[1:])
	}
	return ecSplitAll(s, "&&")
}

func ecLitsFalse(s string) []string {
	if strings.HasPrefix(s, "!") {
		return ecLitsTrue(s[1:])
	}
	parts := ecSplitAll(s, "||")
	if len(parts) == 1 {
		n := ecNegate(s)
		if strings.HasPrefix(n, "!") {
			return []string{n}
		}
		return ecSplitAll(n, "&&")
	}
	var out []string
	for _, p := range parts {
		out = append(out, ecLitsFalse(p)...)
	}
	return out
}

// ecIsDiag: a call that reports a diagnostic (the model counts diagnostics, their text and position are not modelled):
// e.error / e.errorf / e.accessorError / e.accessorErrorf on the evaluation context, syntax.Error(...), ast.ExprError(...).
func ecIsDiag(c *ast.CallExpr) bool {
	sel, ok := c.Fun.(*ast.SelectorExpr)
	if !ok {
		return false
	}
	switch sel.Sel.Name {
	case "errorf", "error", "accessorError", "accessorErrorf":
		return true
	case "Error":
		if id, ok := sel.X.(*ast.Ident); ok && id.Obj == nil && id.Name == "syntax" {
			return true
		}
	case "ExprError", "AccessorError":
		if id, ok := sel.X.(*ast.Ident); ok && id.Obj == nil && id.Name == "ast" {
			return true
		}
	}
	return false
}

func ecIsLogging(e ast.Expr) bool {
	c, ok := e.(*ast.CallExpr)
	if !ok {
		return false
	}
	switch f := c.Fun.(type) {
	case *ast.Ident:
		return f.Name == "print" || f.Name == "println"
	case *ast.SelectorExpr:
		if id, ok := f.X.(*ast.Ident); ok && id.Obj == nil {
			switch id.Name {
			case "log", "glog", "klog", "logging", "slog":
				return true
			case "fmt":
				return strings.HasPrefix(f.Sel.Name, "Print") || strings.HasPrefix(f.Sel.Name, "Fprint")
			}
		}
	}
	return false
}

// stmts prints a statement list canonically: definitions of locals with call-free right-hand sides disappear (they are
// inlined at their uses), logging disappears.
func (fn *ecFn) stmts(l []ast.Stmt) []string {
	var out []string
	for _, s := range l {
		if t := fn.stmtText(s); t != "" {
			out = append(out, t)
		}
	}
	return out
}

func (fn *ecFn) block(b *ast.BlockStmt) string {
	if b == nil {
		return "{}"
	}
	return "{" + strings.Join(fn.stmts(b.List), "; ") + "}"
}

func (fn *ecFn) stmtText(s ast.Stmt) string {
	switch x := s.(type) {
	case nil:
		return ""
	case *ast.EmptyStmt:
		return ""
	case *ast.ExprStmt:
		if ecIsLogging(x.X) {
			return ""
		}
		return fn.expr(x.X)
	case *ast.DeclStmt:
		gd, ok := x.Decl.(*ast.GenDecl)
		if !ok || gd.Tok != token.VAR {
			return ""
		}
		var parts []string
		for _, sp := range gd.Specs {
			vs := sp.(*ast.ValueSpec)
			for i, v := range vs.Values {
				if len(vs.Values) == len(vs.Names) {
					if o := fn.local(vs.Names[i]); o != nil && fn.isMutable(o) {
						parts = append(parts, fn.mutableName(o)+" = "+fn.expr(v))
						continue
					}
				}
				if !ecPure(v) && !(len(vs.Values) == len(vs.Names) && fn.singleTarget(vs.Names[i])) {
					parts = append(parts, "let "+fn.assignRHS(v))
				}
			}
		}
		return strings.Join(parts, "; ")
	case *ast.AssignStmt:
		// a target that is an immutable local is not printed (its uses carry the definition); what remains of such an
		// assignment is the effect of its right-hand side
		target := func(l ast.Expr) string {
			if id, ok := l.(*ast.Ident); ok {
				if id.Name == "_" {
					return "_"
				}
				if o := fn.local(id); o != nil {
					if fn.isMutable(o) {
						return fn.mutableName(o)
					}
					return "_"
				}
			}
			return fn.expr(l)
		}
		if x.Tok != token.ASSIGN && x.Tok != token.DEFINE {
			return target(x.Lhs[0]) + " " + x.Tok.String() + " " + fn.expr(x.Rhs[0])
		}
		if len(x.Lhs) == len(x.Rhs) {
			var parts []string
			for i := range x.Lhs {
				t := target(x.Lhs[i])
				if t == "_" {
					if !ecPure(x.Rhs[i]) && !fn.singleTarget(x.Lhs[i]) {
						parts = append(parts, "let "+fn.assignRHS(x.Rhs[i]))
					}
					continue
				}
				parts = append(parts, t+" = "+fn.expr(x.Rhs[i]))
			}
			if len(parts) > 1 {
				sort.Strings(parts)
				return "par{" + strings.Join(parts, " | ") + "}"
			}
			return strings.Join(parts, "")
		}
		// tuple assignment from one call
		lhs := make([]string, len(x.Lhs))
		all := true
		for i, l := range x.Lhs {
			lhs[i] = target(l)
			if lhs[i] != "_" {
				all = false
			}
		}
		if all {
			if ecPure(x.Rhs[0]) {
				return ""
			}
			return "let " + fn.assignRHS(x.Rhs[0])
		}
		return strings.Join(lhs, ", ") + " = " + fn.expr(x.Rhs[0])
	case *ast.IncDecStmt:
		return fn.expr(x.X) + x.Tok.String()
	case *ast.ReturnStmt:
		rs := make([]string, len(x.Results))
		for i, r := range x.Results {
			rs[i] = fn.expr(r)
		}
		return strings.TrimSpace("return " + strings.Join(rs, ", "))
	case *ast.BranchStmt:
		if x.Label != nil {
			return x.Tok.String() + " " + x.Label.Name
		}
		return x.Tok.String()
	case *ast.BlockStmt:
		return fn.block(x)
	case *ast.IfStmt:
		t := "if "
		if x.Init != nil {
			if i := fn.stmtText(x.Init); i != "" {
				t += i + "; "
			}
		}
		t += fn.expr(x.Cond) + " " + fn.block(x.Body)
		switch e := x.Else.(type) {
		case *ast.BlockStmt:
			t += " else " + fn.block(e)
		case *ast.IfStmt:
			t += " else " + fn.stmtText(e)
		}
		return t
	case *ast.ForStmt:
		return "for " + fn.stmtText(x.Init) + "; " + fn.expr(x.Cond) + "; " + fn.stmtText(x.Post) + " " + fn.block(x.Body)
	case *ast.RangeStmt:
		return "range " + fn.expr(x.X) + " " + fn.block(x.Body)
	case *ast.SwitchStmt:
		t := "switch "
		if x.Init != nil {
			t += fn.stmtText(x.Init) + "; "
		}
		t += fn.expr(x.Tag) + " {"
		for _, c := range x.Body.List {
			t += fn.stmtText(c) + " "
		}
		return t + "}"
	case *ast.TypeSwitchStmt:
		t := "typeswitch "
		if x.Init != nil {
			t += fn.stmtText(x.Init) + "; "
		}
		switch a := x.Assign.(type) {
		case *ast.AssignStmt:
			t += fn.expr(a.Rhs[0])
		case *ast.ExprStmt:
			t += fn.expr(a.X)
		}
		t += " {"
		for _, c := range x.Body.List {
			t += fn.stmtText(c) + " "
		}
		return t + "}"
	case *ast.CaseClause:
		if x.List == nil {
			return "default: " + strings.Join(fn.stmts(x.Body), "; ")
		}
		cs := make([]string, len(x.List))
		for i, c := range x.List {
			cs[i] = fn.expr(c)
		}
		return "case " + strings.Join(cs, ", ") + ": " + strings.Join(fn.stmts(x.Body), "; ")
	case *ast.DeferStmt:
		return "defer " + fn.expr(x.Call)
	case *ast.GoStmt:
		return "go " + fn.expr(x.Call)
	case *ast.LabeledStmt:
		return x.Label.Name + ": " + fn.stmtText(x.Stmt)
	}
	return "?!" + fn.raw(s)
}

// ecAlwaysExits: the block cannot fall through (it ends in return / panic / continue / break / goto).
func ecAlwaysExits(b *ast.BlockStmt) bool {
	if b == nil || len(b.List) == 0 {
		return false
	}
	switch x := b.List[len(b.List)-1].(type) {
	case *ast.ReturnStmt, *ast.BranchStmt:
		return true
	case *ast.ExprStmt:
		if c, ok := x.X.(*ast.CallExpr); ok {
			if id, ok := c.Fun.(*ast.Ident); ok && id.Name == "panic" {
				return true
			}
		}
	case *ast.IfStmt:
		if eb, ok := x.Else.(*ast.BlockStmt); ok {
			return ecAlwaysExits(x.Body) && ecAlwaysExits(eb)
		}
	case *ast.BlockStmt:
		return ecAlwaysExits(x)
	}
	return false
}

// pathCond returns the literals (canonical texts) that hold whenever control reaches node n, as far as they follow
// from the enclosing if / switch statements and from preceding guards that leave (`if c { ...; return }`).
// Type-switch clauses contribute "X.(type) is T1|T2".  Labels / goto make the analysis give up ("?!goto").
func (fn *ecFn) pathCond(n ast.Node) []string {
	var lits []string
	if fn.hasGoto {
		return []string{"?!goto"}
	}
	child := n
	for p := fn.parent[n]; p != nil; child, p = p, fn.parent[p] {
		var list []ast.Stmt
		switch q := p.(type) {
		case *ast.BlockStmt:
			list = q.List
		case *ast.CaseClause:
			list = q.Body
			// which clause?
			switch sw := fn.parent[fn.parent[q]].(type) {
			case *ast.TypeSwitchStmt:
				subject := ""
				switch a := sw.Assign.(type) {
				case *ast.AssignStmt:
					subject = fn.expr(a.Rhs[0])
				case *ast.ExprStmt:
					subject = fn.expr(a.X)
				}
				if q.List == nil {
					lits = append(lits, subject+" is default")
				} else {
					ts := make([]string, len(q.List))
					for i, t := range q.List {
						ts[i] = fn.expr(t)
					}
					sort.Strings(ts)
					lits = append(lits, subject+" is "+strings.Join(ts, "|"))
				}
			case *ast.SwitchStmt:
				tag := "true"
				if sw.Tag != nil {
					tag = fn.expr(sw.Tag)
				}
				if q.List == nil {
					lits = append(lits, tag+" is default")
				} else {
					ts := make([]string, len(q.List))
					for i, t := range q.List {
						ts[i] = fn.expr(t)
					}
					sort.Strings(ts)
					lits = append(lits, tag+" is "+strings.Join(ts, "|"))
				}
			}
		case *ast.IfStmt:
			c := fn.expr(q.Cond)
			if child == ast.Node(q.Body) {
				lits = append(lits, ecLitsTrue(c)...)
			} else if child == q.Else {
				lits = append(lits, ecLitsFalse(c)...)
			}
			continue
		case *ast.FuncLit:
			lits = append(lits, "in-closure")
			continue
		default:
			continue
		}
		for _, s := range list {
			if s == child {
				break
			}
			is, ok := s.(*ast.IfStmt)
			if !ok {
				continue
			}
			// if c { ...leave } [else { ... }] : afterwards !c (when the then-branch always leaves)
			if ecAlwaysExits(is.Body) {
				c := fn.expr(is.Cond)
				if is.Else == nil {
					lits = append(lits, ecLitsFalse(c)...)
				} else if eb, ok := is.Else.(*ast.BlockStmt); ok && !ecAlwaysExits(eb) {
					lits = append(lits, ecLitsFalse(c)...)
				}
			} else if eb, ok := is.Else.(*ast.BlockStmt); ok && ecAlwaysExits(eb) {
				lits = append(lits, ecLitsTrue(fn.expr(is.Cond))...)
			}
		}
	}
	sort.Strings(lits)
	// dedupe
	var out []string
	for i, l := range lits {
		if i == 0 || l != lits[i-1] {
			out = append(out, l)
		}
	}
	return out
}

// unconditionalIn: node a is evaluated whenever statement s is executed (not inside a nested block, closure, or the
// right operand of a short-circuit operator).
func (fn *ecFn) unconditionalIn(a ast.Node, s ast.Node) bool {
	child := a
	for p := fn.parent[a]; p != nil; child, p = p, fn.parent[p] {
		switch q := p.(type) {
		case *ast.BinaryExpr:
			if (q.Op == token.LOR || q.Op == token.LAND) && q.Y == child {
				return false
			}
		case *ast.FuncLit, *ast.CaseClause, *ast.CommClause:
			return false
		case *ast.BlockStmt:
			if p != s {
				return false
			}
		case *ast.ForStmt:
			if q.Init != child {
				return false
			}
		}
		if p == s {
			return true
		}
	}
	return false
}

// dominates: a is evaluated on every path that reaches b (syntactic sufficient condition: in some block enclosing b, a
// statement before the one containing b evaluates a unconditionally; or a sits in the init / condition of an if / switch
// whose body contains b).
func (fn *ecFn) dominates(a, b ast.Node) bool {
	if a.End() > b.Pos() {
		return false
	}
	child := b
	for p := fn.parent[b]; p != nil; child, p = p, fn.parent[p] {
		var list []ast.Stmt
		switch q := p.(type) {
		case *ast.BlockStmt:
			list = q.List
		case *ast.CaseClause:
			list = q.Body
		case *ast.IfStmt:
			if child != q.Init && child != ast.Node(q.Cond) {
				if q.Init != nil && fn.encloses(q.Init, a) && fn.unconditionalIn(a, q.Init) {
					return true
				}
				if fn.encloses(q.Cond, a) && fn.unconditionalIn(a, q) {
					return true
				}
			}
			continue
		case *ast.FuncLit:
			return false
		default:
			continue
		}
		for _, s := range list {
			if s == child {
				break
			}
			if fn.encloses(s, a) {
				if is, ok := s.(*ast.IfStmt); ok {
					if (is.Init != nil && fn.encloses(is.Init, a) && fn.unconditionalIn(a, is.Init)) ||
						(fn.encloses(is.Cond, a) && fn.unconditionalIn(a, is)) {
						return true
					}
					return false
				}
				return fn.unconditionalIn(a, s)
			}
		}
	}
	return false
}

// calls returns the call expressions in n whose callee's last selector / identifier is name.
func ecCalls(n ast.Node, name string) []*ast.CallExpr {
	var out []*ast.CallExpr
	if n == nil {
		return nil
	}
	ast.Inspect(n, func(m ast.Node) bool {
		if c, ok := m.(*ast.CallExpr); ok {
			switch f := c.Fun.(type) {
			case *ast.Ident:
				if f.Name == name {
					out = append(out, c)
				}
			case *ast.SelectorExpr:
				if f.Sel.Name == name {
					out = append(out, c)
				}
			}
		}
		return true
	})
	return out
}

// ---------------------------------------------------------------------------------------------------------------------
// lookup of functions / methods

func (f *facts) ecFunc(rel, recv, name string) *ecFn {
	a := f.file(rel)
	if a == nil {
		return nil
	}
	for _, d := range a.Decls {
		fd, ok := d.(*ast.FuncDecl)
		if !ok || fd.Name.Name != name || fd.Body == nil {
			continue
		}
		if recv == "" {
			if fd.Recv == nil {
				return ecNewFn(f.fset, fd)
			}
			continue
		}
		if fd.Recv == nil || len(fd.Recv.List) != 1 {
			continue
		}
		t := fd.Recv.List[0].Type
		if st, ok := t.(*ast.StarExpr); ok {
			t = st.X
		}
		if id, ok := t.(*ast.Ident); ok && id.Name == recv {
			return ecNewFn(f.fset, fd)
		}
	}
	return nil
}

// ---------------------------------------------------------------------------------------------------------------------
// abbreviation: every ‹content› (the value of a local whose definition contains a call) is replaced by a label @name,
// where name is the called function / allocated type, numbered (.1, .2 in the order of the full texts) when the function
// has several such definitions with the same name.  defsFor lists "label := content" for the labels a text mentions.

const ecOpen, ecClose = "‹", "›"

// ecBrackets calls f for every bracketed text in s (outermost and nested), with the full text between the brackets.
func ecBrackets(s string, f func(full string)) {
	var starts []int
	for i := 0; i < len(s); {
		switch {
		case strings.HasPrefix(s[i:], ecOpen):
			starts = append(starts, i+len(ecOpen))
			i += len(ecOpen)
		case strings.HasPrefix(s[i:], ecClose):
			if len(starts) > 0 {
				st := starts[len(starts)-1]
				starts = starts[:len(starts)-1]
				f(s[st:i])
			}
			i += len(ecClose)
		default:
			i++
		}
	}
}

func ecHead(full string) string {
	// the identifier in front of the last top-level '(' or '{' (a call's function / a literal's type); brackets,
	// parentheses and quoted strings are skipped
	depth := 0
	head := ""
	cur := ""
	inStr := byte(0)
	for i := 0; i < len(full); {
		if inStr != 0 {
			if full[i] == '\\' {
				i++
			} else if full[i] == inStr {
				inStr = 0
			}
			i++
			continue
		}
		switch {
		case strings.HasPrefix(full[i:], ecOpen):
			depth++
			i += len(ecOpen)
			cur = ""
		case strings.HasPrefix(full[i:], ecClose):
			depth--
			i += len(ecClose)
			cur = ""
		default:
			c := full[i]
			switch {
			case c == '"' || c == '`':
				inStr = c
			case c == '(' || c == '{' || c == '[':
				if depth == 0 && cur != "" && c != '[' {
					head = cur
				}
				depth++
				cur = ""
			case c == ')' || c == '}' || c == ']':
				depth--
				cur = ""
			case c == '_' || (c >= '0' && c <= '9') || (c >= 'a' && c <= 'z') || (c >= 'A' && c <= 'Z'):
				if depth == 0 {
					cur += string(c)
				}
			default:
				cur = ""
			}
			i++
		}
	}
	if head == "" {
		return "v"
	}
	return head
}

func (fn *ecFn) buildLabels() {
	if fn.labels != nil {
		return
	}
	fn.labels = map[string]string{}
	fn.defs = map[string]string{}
	text := strings.Join(fn.stmts(fn.fd.Body.List), "\n")
	groups := map[string][]string{}
	seen := map[string]bool{}
	ecBrackets(text, func(full string) {
		if !seen[full] {
			seen[full] = true
			h := ecHead(full)
			groups[h] = append(groups[h], full)
		}
	})
	for h, l := range groups {
		sort.Strings(l)
		for i, full := range l {
			if len(l) == 1 {
				fn.labels[full] = "@" + h
			} else {
				fn.labels[full] = fmt.Sprintf("@%s.%d", h, i+1)
			}
		}
	}
	for full, lab := range fn.labels {
		fn.defs[lab] = fn.abbr(full)
	}
}

// abbr replaces the outermost brackets of s by their labels.
func (fn *ecFn) abbr(s string) string {
	fn.buildLabels()
	var b strings.Builder
	depth, start := 0, 0
	for i := 0; i < len(s); {
		switch {
		case strings.HasPrefix(s[i:], ecOpen):
			if depth == 0 {
				start = i + len(ecOpen)
			}
			depth++
			i += len(ecOpen)
		case strings.HasPrefix(s[i:], ecClose):
			depth--
			if depth == 0 {
				full := s[start:i]
				lab, ok := fn.labels[full]
				if !ok {
					lab = fmt.Sprintf("@%s.x%d", ecHead(full), len(fn.labels)+1)
					fn.labels[full] = lab
					fn.defs[lab] = fn.abbr(full)
				}
				b.WriteString(lab)
			}
			i += len(ecClose)
		default:
			if depth == 0 {
				b.WriteByte(s[i])
			}
			i++
		}
	}
	return b.String()
}

func ecLabelsIn(s string) []string {
	var out []string
	for i := 0; i < len(s); i++ {
		if s[i] != '@' {
			continue
		}
		j := i + 1
		for j < len(s) && (s[j] == '_' || s[j] == '.' && j+1 < len(s) && (s[j+1] >= '0' && s[j+1] <= '9' || s[j+1] == 'x') ||
			(s[j] >= '0' && s[j] <= '9') || (s[j] >= 'a' && s[j] <= 'z') || (s[j] >= 'A' && s[j] <= 'Z')) {
			j++
		}
		if j > i+1 {
			out = append(out, s[i:j])
		}
		i = j - 1
	}
	return out
}

// defsFor returns, sorted, "label := content" for every label mentioned (transitively) by the abbreviated texts.
func (fn *ecFn) defsFor(texts ...string) []string {
	fn.buildLabels()
	seen := map[string]bool{}
	var work []string
	for _, t := range texts {
		work = append(work, ecLabelsIn(t)...)
	}
	for len(work) > 0 {
		l := work[0]
		work = work[1:]
		if seen[l] {
			continue
		}
		seen[l] = true
		work = append(work, ecLabelsIn(fn.defs[l])...)
	}
	var out []string
	for l := range seen {
		out = append(out, l+" := "+fn.defs[l])
	}
	sort.Strings(out)
	return out
}

// ---------------------------------------------------------------------------------------------------------------------
// the behaviour table of a function: one entry per leaf statement that has an effect (a call, an assignment to something
// that is not an immutable local, a return, a defer), with the path condition under which it executes.  Entries are
// printed "c1 & c2 & ... => text" and compared as SETS, so the table does not change when independent statements are
// reordered, when `if c { return }; S` is written `if !c { S }`, or when branches of an if/else are swapped with a negated
// condition.  Loops contribute the literal "each X" (range) / "while C" (for).

type ecEntry struct {
	kind  string // "return", "do", "let", "defer"
	conds []string
	text  string
	node  ast.Node
}

func (e ecEntry) String() string {
	if len(e.conds) == 0 {
		return "=> " + e.text
	}
	return strings.Join(e.conds, " & ") + " => " + e.text
}

func (fn *ecFn) condsOf(n ast.Node) []string {
	lits := fn.pathCond(n)
	for p := fn.parent[n]; p != nil; p = fn.parent[p] {
		switch q := p.(type) {
		case *ast.RangeStmt:
			lits = append(lits, "each "+fn.expr(q.X))
		case *ast.ForStmt:
			if q.Init != nil && fn.encloses(q.Init, n) {
				continue
			}
			c := "true"
			if q.Cond != nil {
				c = fn.expr(q.Cond)
			}
			lits = append(lits, "while "+c)
		}
	}
	sort.Strings(lits)
	out := lits[:0]
	for i, l := range lits {
		if i == 0 || l != lits[i-1] {
			out = append(out, fn.abbr(l))
		}
	}
	return out
}

func (fn *ecFn) table(body *ast.BlockStmt) []ecEntry {
	var out []ecEntry
	var walk func(s ast.Stmt)
	leaf := func(s ast.Stmt, kind string) {
		t := fn.stmtText(s)
		if t == "" {
			return
		}
		if kind == "do" && strings.HasPrefix(t, "let ") {
			kind = "let"
		}
		out = append(out, ecEntry{kind: kind, conds: fn.condsOf(s), text: fn.abbr(t), node: s})
	}
	walkList := func(l []ast.Stmt) {
		for _, s := range l {
			walk(s)
		}
	}
	walk = func(s ast.Stmt) {
		switch x := s.(type) {
		case nil:
		case *ast.BlockStmt:
			walkList(x.List)
		case *ast.IfStmt:
			walk(x.Init)
			walk(x.Body)
			walk(x.Else)
		case *ast.ForStmt:
			walk(x.Init)
			walk(x.Post)
			walk(x.Body)
		case *ast.RangeStmt:
			walk(x.Body)
		case *ast.SwitchStmt:
			walk(x.Init)
			walk(x.Body)
		case *ast.TypeSwitchStmt:
			walk(x.Init)
			walk(x.Body)
		case *ast.CaseClause:
			walkList(x.Body)
		case *ast.LabeledStmt:
			walk(x.Stmt)
		case *ast.ReturnStmt:
			leaf(x, "return")
		case *ast.DeferStmt:
			leaf(x, "defer")
		default:
			leaf(s, "do")
		}
	}
	walk(body)
	return out
}

func ecEntryStrings(l []ecEntry) []string {
	out := make([]string, len(l))
	for i, e := range l {
		out[i] = e.String()
	}
	sort.Strings(out)
	return out
}

// =====================================================================================================================
// 2. the facts
// =====================================================================================================================

type ecEmitter struct {
	f *facts
	o *out
}

func ecComment(s string) string {
	s = strings.ReplaceAll(s, "(*", "( *")
	s = strings.ReplaceAll(s, "*)", "* )")
	s = strings.ReplaceAll(s, "\"", "'")
	return s
}

func (e *ecEmitter) comment(format string, a ...any) {
	e.o.add("(* %s *)", ecComment(fmt.Sprintf(format, a...)))
}

func ecHasMarker(l []string) string {
	for _, s := range l {
		if i := strings.Index(s, "?!"); i >= 0 {
			j := i + 2
			for j < len(s) && (s[j] == '-' || (s[j] >= 'a' && s[j] <= 'z')) {
				j++
			}
			return s[i:j]
		}
	}
	return ""
}

func (e *ecEmitter) list(name string, l []string, why string) {
	if why == "" {
		why = ecHasMarker(l)
		if why != "" {
			why = "a value could not be followed (" + why + ")"
		}
	}
	if why != "" {
		e.o.add("Definition %s : list string := []. (* unrecognised: %s *)", name, ecComment(why))
		e.f.status[name] = "unrecognised: " + why
		return
	}
	e.o.add("Definition %s : list string := [", name)
	for i, s := range l {
		sep := ";"
		if i == len(l)-1 {
			sep = ""
		}
		e.o.add("  %s%s (* %s *)", coqString(s), sep, ecComment(s))
	}
	e.o.add("].")
	e.f.status[name] = "ok"
}

func (e *ecEmitter) pairs(name string, l [][2]string, why string) {
	if why != "" {
		e.o.add("Definition %s : list (string * string) := []. (* unrecognised: %s *)", name, ecComment(why))
		e.f.status[name] = "unrecognised: " + why
		return
	}
	e.o.add("Definition %s : list (string * string) := [", name)
	for i, p := range l {
		sep := ";"
		if i == len(l)-1 {
			sep = ""
		}
		e.o.add("  (%s, %s)%s (* %s -> %s *)", coqString(p[0]), coqString(p[1]), sep, ecComment(p[0]), ecComment(p[1]))
	}
	e.o.add("].")
	e.f.status[name] = "ok"
}

func (e *ecEmitter) boolean(name string, val bool, why string) {
	if why != "" {
		e.o.add("Definition %s : bool := false. (* unrecognised: %s *)", name, ecComment(why))
		e.f.status[name] = "unrecognised: " + why
		return
	}
	e.o.add("Definition %s : bool := %v.", name, val)
	e.f.status[name] = "ok"
}

func (e *ecEmitter) str(name, val, why string) {
	if why != "" {
		e.o.add("Definition %s : string := %s. (* unrecognised: %s *)", name, coqString(""), ecComment(why))
		e.f.status[name] = "unrecognised: " + why
		return
	}
	e.o.add("Definition %s : string := %s. (* %s *)", name, coqString(val), ecComment(val))
	e.f.status[name] = "ok"
}

// signature prints "func (T) name(T0, T1, ...) (R0, ...)" with the names dropped.
func (fn *ecFn) signature() string {
	fd := fn.fd
	var b strings.Builder
	b.WriteString("func ")
	if fd.Recv != nil && len(fd.Recv.List) == 1 {
		b.WriteString("(" + fn.raw(fd.Recv.List[0].Type) + ") ")
	}
	b.WriteString(fd.Name.Name + "(")
	var ps []string
	for _, fld := range fd.Type.Params.List {
		n := len(fld.Names)
		if n == 0 {
			n = 1
		}
		for i := 0; i < n; i++ {
			ps = append(ps, fn.raw(fld.Type))
		}
	}
	b.WriteString(strings.Join(ps, ", ") + ")")
	if fd.Type.Results != nil {
		var rs []string
		for _, fld := range fd.Type.Results.List {
			n := len(fld.Names)
			if n == 0 {
				n = 1
			}
			for i := 0; i < n; i++ {
				rs = append(rs, fn.raw(fld.Type))
			}
		}
		b.WriteString(" (" + strings.Join(rs, ", ") + ")")
	}
	return b.String()
}

// whole emits the behaviour table of one function: signature, the sorted entries, the definitions of the labels.
func (e *ecEmitter) whole(name, rel, recv, fname string) (*ecFn, []ecEntry) {
	fn := e.f.ecFunc(rel, recv, fname)
	if fn == nil {
		e.list(name, nil, "function "+fname+" not found in "+rel)
		return nil, nil
	}
	tbl := fn.table(fn.fd.Body)
	l := []string{fn.signature()}
	es := ecEntryStrings(tbl)
	l = append(l, es...)
	for _, d := range fn.defsFor(es...) {
		l = append(l, "where "+d)
	}
	e.list(name, l, "")
	return fn, tbl
}

// find returns the entries whose text contains pat.
func ecFind(tbl []ecEntry, pat string) []ecEntry {
	var out []ecEntry
	for _, t := range tbl {
		if strings.Contains(t.text, pat) {
			out = append(out, t)
		}
	}
	return out
}

// precedes: in the innermost statement list that contains both a and b, the statement holding a comes strictly before
// the statement holding b (so: whenever that list is executed, a's statement is passed before b's is reached).
func (fn *ecFn) precedes(a, b ast.Node) bool {
	if a == nil || b == nil {
		return false
	}
	childOf := map[ast.Node]ast.Node{} // ancestor of a -> the child through which a is reached
	var prev ast.Node = a
	for p := fn.parent[a]; p != nil; prev, p = p, fn.parent[p] {
		childOf[p] = prev
	}
	prev = b
	for p := fn.parent[b]; p != nil; prev, p = p, fn.parent[p] {
		ca, ok := childOf[p]
		if !ok {
			continue
		}
		var list []ast.Stmt
		switch q := p.(type) {
		case *ast.BlockStmt:
			list = q.List
		case *ast.CaseClause:
			list = q.Body
		case *ast.CommClause:
			list = q.Body
		default:
			return false // the lowest common ancestor is not a statement list (e.g. the two branches of an if)
		}
		ia, ib := -1, -1
		for i, st := range list {
			if ast.Node(st) == ca {
				ia = i
			}
			if ast.Node(st) == prev {
				ib = i
			}
		}
		return ia >= 0 && ib >= 0 && ia < ib
	}
	return false
}

func ecCountCalls(f *facts, rel, name string) int {
	a := f.file(rel)
	if a == nil {
		return -1
	}
	return len(ecCalls(a, name))
}

func srcEval(f *facts, o *out) {
	e := &ecEmitter{f: f, o: o}
	const val = "eval/value.go"
	const ev = "eval/eval.go"
	o.add("(* Every list below is the BEHAVIOUR TABLE of one Go function in canonical form: its signature, then one line per")
	o.add("   effect or return, `conditions => statement` (sorted; a set), then `where @label := expression` for the values")
	o.add("   that are computed once and used several times.  $r = receiver, $pN = N-th parameter, %%pN = a parameter the")
	o.add("   function assigns, $k(X) / $v(X) = key / value variable of `range X`, %%[init] = a local that is updated in a")
	o.add("   loop, `each X` = inside `range X`, `while C` = inside `for C`, `X is T` = in that case of a (type) switch,")
	o.add("   ok(E) = the second result of a comma-ok form, ite / sw = value after an if / a switch, `diag` = a diagnostic")
	o.add("   is reported (text not modelled).  See harness/cmd/srcfacts/evalcore.go. *)")

	// ---- 1. combine ------------------------------------------------------------------------------------------------
	e.comment("1. (*value).combine -- Model/Eval.v combine2 / the `let unk := contains_unknowns v in let sec := contains_secrets v` of every builtin: for EVERY argument both flags are joined with containsUnknowns / containsSecrets of the argument, the loop has no exit")
	e.whole("ev_combine", val, "value", "combine")

	// ---- 2. containsUnknowns / containsSecrets -----------------------------------------------------------------------
	e.comment("2. (*value).containsUnknowns / containsSecrets -- Model/Eval.v contains_unknowns / contains_secrets = x_has_unknown / x_has_secret of (export c): own flag, any array element, any property of the MERGED object view (keys() / property(), i.e. through the base chain); a base chain under a non-object is not consulted")
	for _, t := range [][2]string{{"containsUnknowns", "ev_contains_unknowns"}, {"containsSecrets", "ev_contains_secrets"}} {
		fn, tbl := e.whole(t[1], val, "value", t[0])
		view, why := "", ""
		if fn == nil {
			why = "function not found"
		} else {
			for _, en := range tbl {
				if en.kind != "return" || en.text != "return true" {
					continue
				}
				isMap := false
				for _, c := range en.conds {
					if c == "$r.repr.(type) is map[string]*value" {
						isMap = true
					}
				}
				if !isMap {
					continue
				}
				has := func(c string) bool {
					for _, x := range en.conds {
						if x == c {
							return true
						}
					}
					return false
				}
				switch {
				case has("each $r.keys()") && has("$r.property($r.def.repr.syntax(), $v($r.keys()))."+t[0]+"()"):
					view = "merged"
				case has("each $r.repr.(type)") && has("$v($r.repr.(type))."+t[0]+"()"):
					view = "own"
				}
			}
			if view == "" {
				why = "the object case has neither of the two known shapes"
			}
		}
		e.str(t[1]+"_object_view", view, why)
	}

	// ---- 3. merge ------------------------------------------------------------------------------------------------------
	e.comment("3. (*value).merge -- Model/Chain.v: merge is chain append (eval_expr: v1 ++ xbase; eval_env: val ++ base): no-op guards (nil base, v.is(base), v already in the base's chain), the new base goes to the END of the receiver's chain (recursion through v.base), an object's OWN properties are re-merged with base.property(k) (the duplicated base segments of Proofs/ChainAlgebraSrc.v), schema = mergedSchema")
	{
		fn, tbl := e.whole("ev_merge", val, "value", "merge")
		why, okv := "", false
		if fn == nil {
			why = "function not found"
		} else {
			g1 := ecFind(tbl, "return")
			link := ecFind(tbl, "$r.base.merge($p0)")
			set := ecFind(tbl, "$r.base = $p0")
			prop := ecFind(tbl, ".merge($r.base.property(")
			sch := ecFind(tbl, "$r.schema = ")
			if len(g1) != 2 || len(link) != 1 || len(set) != 1 || len(prop) != 1 || len(sch) != 1 {
				why = "the five parts of merge were not found exactly once"
			} else {
				okv = fn.precedes(g1[0].node, link[0].node) && fn.precedes(g1[1].node, link[0].node) &&
					fn.precedes(g1[0].node, set[0].node) && fn.precedes(g1[1].node, set[0].node) &&
					fn.precedes(link[0].node, prop[0].node) && fn.precedes(set[0].node, prop[0].node) &&
					fn.precedes(prop[0].node, sch[0].node)
			}
		}
		e.comment("order: both guards, then the link, then the re-merge of the properties, then the schema")
		e.boolean("ev_merge_order", okv, why)
	}

	// ---- 4. property, keys, export, toString, isObject, unexport ------------------------------------------------------
	e.comment("4a. (*value).property -- Model/Chain.v property: an object layer yields its own child, else the base's; an unknown non-object layer yields an unknown with schema.Property(key) over base.property; anything else cuts (nil)")
	e.whole("ev_property", val, "value", "property")
	e.comment("4b. (*value).keys -- Model/Chain.v keys: a non-object has no keys; own keys united with base.keys() (so: along the base chain while the layers are objects), sorted, memoised in mergedKeys")
	{
		fn, tbl := e.whole("ev_keys", val, "value", "keys")
		why, okv := "", false
		if fn == nil {
			why = "function not found"
		} else {
			srt := ecFind(tbl, "sort.Strings($r.mergedKeys)")
			as := ecFind(tbl, "$r.mergedKeys = ")
			if len(srt) != 1 || len(as) == 0 {
				why = "sort.Strings($r.mergedKeys) not found exactly once"
			} else {
				okv = true
				for _, a := range as {
					okv = okv && fn.precedes(a.node, srt[0].node)
				}
			}
		}
		e.comment("order: the keys are sorted after they have been collected")
		e.boolean("ev_keys_sorted_after", okv, why)
	}
	e.comment("4c. (*value).export -- Model/Chain.v export: an array exports its elements, an object exports property(k) for k in keys() (the merged view: union of keys, top-most definition first, recursively merged), anything else its repr; Secret / Unknown are the layer's own flags (an unknown exports as unknown); memoised in exported")
	e.whole("ev_export", val, "value", "export")
	e.comment("4d. (*value).toString -- Model/Eval.v to_string: unknown -> \"[unknown]\"; scalars; arrays / objects join the quoted strings of their OWN elements / own properties in sorted key order (not the merged view: known finding C02-tostring), unknown / secret are OR-ed over the members")
	{
		fn, tbl := e.whole("ev_to_string", val, "value", "toString")
		why, okv := "", false
		if fn == nil {
			why = "function not found"
		} else {
			srt := ecFind(tbl, "sort.Strings(@Keys)")
			loop := ecFind(tbl, "fmt.Sprintf(\"%q=%q\"")
			if len(srt) != 1 || len(loop) != 1 {
				why = "sort.Strings(keys) / the pair formatting not found exactly once"
			} else {
				okv = fn.precedes(srt[0].node, loop[0].node)
			}
		}
		e.comment("order: the object's keys are sorted before the pairs are formatted")
		e.boolean("ev_to_string_sorted_before", okv, why)
	}
	e.comment("4e. (*value).isObject -- Model/Chain.v is_object: unknown -> schema Always or Type object; else repr is a map")
	e.whole("ev_is_object", val, "value", "isObject")
	e.comment("4f. unexport / unexportValue -- Model/Chain.v unexport: secret = v.Secret || x.secret || (inside a secret composite); unknown = v.Unknown; children unexported with the parent's secret flag")
	e.whole("ev_unexport", val, "", "unexport")
	e.whole("ev_unexport_value", val, "", "unexportValue")
	e.comment("4g. copier.copy -- the deep copy the model gets for free from immutable chains: copies repr children and the base chain, memoised per source value (sharing is preserved)")
	e.whole("ev_copy", val, "copier", "copy")
	e.comment("4h. mergedSchema -- Model/Chain.v merged_schema")
	e.whole("ev_merged_schema", val, "", "mergedSchema")

	// ---- 5. evaluateExpr -----------------------------------------------------------------------------------------------
	e.comment("5. (*evalContext).evaluateExpr -- Model/Eval.v eval_expr (memo states) + eval_repr (dispatch): exprDone returns the memoised value, exprEvaluating reports a cyclic reference and yields an unknown, otherwise the state is set to exprEvaluating (exprDone on return), the repr is dispatched, the secret flag is applied and the result is MERGED WITH x.base and memoised")
	{
		fn, tbl := e.whole("ev_evaluate_expr", ev, "evalContext", "evaluateExpr")
		var pairs [][2]string
		why := ""
		markOK, whyMark := false, ""
		if fn == nil {
			why, whyMark = "function not found", "function not found"
		} else {
			for _, en := range tbl {
				var ty []string
				for _, c := range en.conds {
					if strings.HasPrefix(c, "$p0.repr.(type) is ") {
						ty = append([]string{strings.TrimPrefix(c, "$p0.repr.(type) is ")}, ty...)
					} else if strings.HasPrefix(c, "$p0.repr.syntax().(type) is ") {
						ty = append(ty, strings.TrimPrefix(c, "$p0.repr.syntax().(type) is "))
					}
					// other conditions are ignored here: they show in ev_evaluate_expr
				}
				if len(ty) == 0 {
					continue
				}
				t := en.text
				if strings.HasPrefix(t, "let @") {
					t = fn.defs[strings.TrimPrefix(t, "let ")]
				}
				pairs = append(pairs, [2]string{strings.Join(ty, "/"), t})
			}
			sort.Slice(pairs, func(i, j int) bool { return pairs[i][0] < pairs[j][0] })
			if len(pairs) == 0 {
				why = "no dispatch on x.repr.(type) found"
			}
			for _, p := range pairs {
				if m := ecHasMarker([]string{p[1]}); m != "" {
					why = "a value could not be followed (" + m + ")"
				}
			}
			mark := ecFind(tbl, "$p0.state = exprEvaluating")
			done := ecFind(tbl, "defer func{$p0.state = exprDone}()")
			var first ast.Node
			for _, en := range tbl {
				for _, c := range en.conds {
					if strings.HasPrefix(c, "$p0.repr.(type) is ") && (first == nil || en.node.Pos() < first.Pos()) {
						first = en.node
					}
				}
			}
			if len(mark) != 1 || len(done) != 1 || first == nil {
				whyMark = "the state marking was not found exactly once"
			} else {
				markOK = fn.precedes(mark[0].node, first) && fn.precedes(done[0].node, first)
			}
		}
		e.comment("the dispatch: repr type (/ literal syntax type) -> what produces the value; Proofs/EvalSrc.v maps every constructor of Model/Eval.v's expr to one of these rows and back")
		e.pairs("ev_dispatch", pairs, why)
		e.comment("order: the expression is marked exprEvaluating (and its completion deferred) before its repr is dispatched")
		e.boolean("ev_expr_marked_before_dispatch", markOK, whyMark)
	}

	// ---- 6. evaluatePropertyAccess ---------------------------------------------------------------------------------------
	e.comment("6. (*evalContext).evaluatePropertyAccess -- Model/Eval.v eval_access (ESym / interpolation parts): the resolved value is deep-copied UNCONDITIONALLY (chains are values in the model: the merge with x.base never writes into the referenced value), def stamped")
	e.whole("ev_property_access", ev, "evalContext", "evaluatePropertyAccess")
	e.comment("6b. the access walkers -- Model/Eval.v eval_access / walk, value_access, unknown_access, invalid_access, array_index, object_key")
	e.whole("ev_expr_access", ev, "evalContext", "evaluateExprAccess")
	e.whole("ev_value_access", ev, "evalContext", "evaluateValueAccess")
	e.whole("ev_unknown_access", ev, "evalContext", "evaluateUnknownAccess")
	e.whole("ev_invalid_access", ev, "evalContext", "invalidPropertyAccess")
	e.whole("ev_array_index", ev, "evalContext", "arrayIndex")
	e.whole("ev_object_key", ev, "evalContext", "objectKey")

	// ---- 7. imports -------------------------------------------------------------------------------------------------------
	e.comment("7. (*evalContext).evaluateImport(s), newEvalContext -- Model/Eval.v eval_env: the shared table e.imports is consulted before LoadEnvironment and filled after the import has been evaluated; an entry that is still `evaluating` is a cyclic import (diagnostic, skipped); the imported environment is evaluated in a NEW context with the decrypter the loader returned FOR IT, the same table, and the execution context copied for it; merge defaults to true; a merged import is deep-copied, then merged onto the running base, then becomes the base; myImports[name] gets the uncopied value")
	{
		fn, tbl := e.whole("ev_evaluate_import", ev, "evalContext", "evaluateImport")
		why, okv := "", false
		if fn == nil {
			why = "function not found"
		} else {
			cp := ecFind(tbl, "let @copy")
			mg := ecFind(tbl, "@copy.merge($r.base)")
			as := ecFind(tbl, "$r.base = @copy")
			if len(cp) != 1 || len(mg) != 1 || len(as) != 1 {
				why = "copy / merge / base assignment not found exactly once"
			} else {
				okv = fn.precedes(cp[0].node, mg[0].node) && fn.precedes(mg[0].node, as[0].node)
			}
		}
		e.comment("order: copy, then merge onto e.base, then e.base = the copy")
		e.boolean("ev_import_copy_merge_assign", okv, why)
	}
	{
		fn, tbl := e.whole("ev_evaluate_imports", ev, "evalContext", "evaluateImports")
		why, okv := "", false
		if fn == nil {
			why = "function not found"
		} else {
			mk := ecFind(tbl, "$r.imports[$r.name] = @imported")
			lp := ecFind(tbl, "$r.evaluateImport(")
			if len(mk) != 1 || len(lp) != 1 || fn.defs["@imported"] != "&imported{evaluating: true}" {
				why = "the in-progress mark / the loop over the imports not found exactly once"
			} else {
				okv = fn.precedes(mk[0].node, lp[0].node)
			}
		}
		e.comment("order: the environment's own entry is put into e.imports as `evaluating` before its imports are evaluated (reset by the deferred function)")
		e.boolean("ev_imports_marked_before_loop", okv, why)
	}
	e.whole("ev_new_eval_context", ev, "", "newEvalContext")
	e.comment("7a. (*ExecContext).CopyForEnv (environment.go) -- Model/Eval.v context_chain W root' name with root' = if root is empty (or the anonymous name) then the current name else root: the context an environment (and the providers it opens) sees")
	e.whole("ev_copy_for_env", "environment.go", "ExecContext", "CopyForEnv")
	e.comment("7b. (*evalContext).evaluate, evaluateContext -- Model/Eval.v eval_env (tail) / context_chain: context, then imports, then the root object is declared over e.base (reserved and duplicate keys are diagnostics), then evaluated")
	{
		fn, tbl := e.whole("ev_evaluate", ev, "evalContext", "evaluate")
		why, okv := "", false
		if fn == nil {
			why = "function not found"
		} else {
			a := ecFind(tbl, "$r.evaluateContext()")
			b := ecFind(tbl, "$r.evaluateImports()")
			c := ecFind(tbl, "$r.root = ")
			d := ecFind(tbl, "declare($r, ")
			r := ecFind(tbl, "$r.evaluateExpr($r.root)")
			if len(a) != 1 || len(b) != 1 || len(c) != 1 || len(d) != 1 || len(r) != 1 {
				why = "the five steps of evaluate were not found exactly once"
			} else {
				okv = fn.precedes(a[0].node, b[0].node) && fn.precedes(b[0].node, c[0].node) &&
					fn.precedes(c[0].node, d[0].node) && fn.precedes(d[0].node, r[0].node)
			}
		}
		e.boolean("ev_evaluate_order", okv, why)
	}
	e.whole("ev_evaluate_context", ev, "evalContext", "evaluateContext")
	e.comment("7c. declare -- Model/Eval.v: a property's base is base.property(key) (EObj case of eval_repr), the operand of fn::secret is declared secret (ESecretPlain: xsec = true), duplicate keys are diagnostics (declared)")
	e.whole("ev_declare", ev, "", "declare")

	// ---- 8. fn::open ---------------------------------------------------------------------------------------------------------
	e.comment("8. (*evalContext).evaluateBuiltinOpen -- Model/Eval.v EOpen: provider.Open is reached only if the provider loaded, validation of the inputs succeeded, the inputs contain no unknowns, the context is not validating, and the exported inputs are an object; it receives inputs.export(\"\").Value and e.execContext (= execContext.CopyForEnv(name), see ev_new_eval_context)")
	{
		fn, tbl := e.whole("ev_builtin_open", ev, "evalContext", "evaluateBuiltinOpen")
		var guard []string
		why := ""
		if fn == nil {
			why = "function not found"
		} else {
			op := ecFind(tbl, "let @Open")
			if len(op) != 1 {
				why = "the call of provider.Open was not found exactly once"
			} else {
				guard = append(guard, op[0].conds...)
				guard = append(guard, "call "+fn.defs["@Open"])
				for _, d := range fn.defsFor(append(guard, fn.defs["@Open"])...) {
					guard = append(guard, "where "+d)
				}
			}
		}
		e.comment("the path condition of the one call of Open, the call, and what its operands are")
		e.list("ev_open_guard", guard, why)
	}
	for _, c := range [][2]string{{"Open", "ev_open_call_sites"}, {"Decrypt", "ev_decrypt_call_sites"},
		{"LoadEnvironment", "ev_load_environment_call_sites"}, {"LoadProvider", "ev_load_provider_call_sites"}} {
		n := ecCountCalls(f, ev, c[0])
		if n < 0 {
			o.add("Definition %s : N := 0. (* unrecognised *)", c[1])
			f.status[c[1]] = "unrecognised: eval/eval.go not readable"
		} else {
			o.add("Definition %s : N := %d. (* calls of a method named %s in eval/eval.go *)", c[1], n, c[0])
			f.status[c[1]] = "ok"
		}
	}

	// ---- 9. fn::secret ---------------------------------------------------------------------------------------------------------
	e.comment("9. (*evalContext).evaluateBuiltinSecret, decryptSecrets, DecryptSecrets -- Model/Eval.v ESecretCipher / ESecretPlain: plaintext evaluates its operand; decodeCiphertext first: an error is one diagnostic and an unknown secret, nothing else; then `validating && !showSecrets` yields an unknown secret without a decrypt; then decrypter.Decrypt on the DECODED bytes")
	{
		fn, tbl := e.whole("ev_builtin_secret", ev, "evalContext", "evaluateBuiltinSecret")
		why, okv := "", false
		if fn == nil {
			why = "function not found"
		} else {
			dc := ecCalls(fn.fd.Body, "decodeCiphertext")
			dy := ecCalls(fn.fd.Body, "Decrypt")
			if len(dc) != 1 || len(dy) != 1 {
				why = "decodeCiphertext / Decrypt not called exactly once"
			} else {
				okv = fn.dominates(dc[0], dy[0]) && len(dy[0].Args) == 2 && fn.abbr(fn.expr(dy[0].Args[1])) == "@decodeCiphertext#0"
			}
			_ = tbl
		}
		e.comment("decodeCiphertext dominates decrypter.Decrypt, whose operand is the first result of that call")
		e.boolean("ev_secret_decode_dominates_decrypt", okv, why)
	}
	e.whole("ev_decrypt_secrets_flag", ev, "evalContext", "decryptSecrets")
	{
		// DecryptSecrets: the table of the rewriting closure
		name := "ev_decrypt_secrets"
		fn := f.ecFunc("eval/crypt.go", "", "DecryptSecrets")
		var lit *ast.FuncLit
		if fn != nil {
			ast.Inspect(fn.fd.Body, func(n ast.Node) bool {
				if fl, ok := n.(*ast.FuncLit); ok && lit == nil {
					lit = fl
					return false
				}
				return true
			})
		}
		e.comment("9b. DecryptSecrets (eval/crypt.go), the rewriting closure -- Model/Crypt.v decrypt step / C11: the only value handed to the decrypter is the first result of decodeCiphertext, and only if its error is nil")
		if fn == nil || lit == nil {
			e.list(name, nil, "DecryptSecrets / its closure not found")
		} else {
			tbl := fn.table(lit.Body)
			es := ecEntryStrings(tbl)
			l := append([]string{fn.signature()}, es...)
			for _, d := range fn.defsFor(es...) {
				l = append(l, "where "+d)
			}
			e.list(name, l, "")
		}
	}

	// ---- 10. the other builtins ---------------------------------------------------------------------------------------------------
	e.comment("10. evaluateBuiltinJoin / ToJSON / FromJSON / ToBase64 / FromBase64 / ToString -- Model/Eval.v EJoin .. EToString: a failed validation yields an unknown; combine is called with ALL evaluated arguments; every use of an argument's repr is under !v.unknown and after combine")
	var flags [][2]string
	for _, b := range [][2]string{{"evaluateBuiltinJoin", "ev_builtin_join"}, {"evaluateBuiltinToJSON", "ev_builtin_to_json"},
		{"evaluateBuiltinFromJSON", "ev_builtin_from_json"}, {"evaluateBuiltinToBase64", "ev_builtin_to_base64"},
		{"evaluateBuiltinFromBase64", "ev_builtin_from_base64"}, {"evaluateBuiltinToString", "ev_builtin_to_string"}} {
		fn, tbl := e.whole(b[1], ev, "evalContext", b[0])
		if fn == nil {
			flags = append(flags, [2]string{b[0], "missing"})
			continue
		}
		// arguments: every value obtained from evaluateTypedExpr (#0) / evaluateExpr
		var args []string
		for lab, d := range fn.defs {
			if strings.HasPrefix(d, "$r.evaluateTypedExpr(") {
				args = append(args, lab+"#0")
			} else if strings.HasPrefix(d, "$r.evaluateExpr(") {
				args = append(args, lab)
			}
		}
		sort.Strings(args)
		cmb := ecFind(tbl, ".combine(")
		verdict := "ok"
		switch {
		case b[0] == "evaluateBuiltinToString":
			// no combine: the flags come from toString of the operand
			if len(ecFind(tbl, "par{@value.secret = @toString#2 | @value.unknown = @toString#1}")) != 1 ||
				len(ecFind(tbl, "@value.repr = @toString#0")) != 1 || ecFind(tbl, "@value.repr = @toString#0")[0].conds[0] != "!@toString#1" {
				verdict = "flags are not those of toString"
			}
		case len(cmb) != 1:
			verdict = "combine not called exactly once"
		case cmb[0].text != "@value.combine("+strings.Join(args, ", ")+")":
			verdict = "combine is not called with all arguments: " + cmb[0].text
		default:
			for _, en := range tbl {
				uses := strings.Contains(en.text, ".repr.(") || strings.Contains(en.text, ".export(")
				for _, c := range en.conds {
					if strings.Contains(c, ".repr.(") {
						uses = true
					}
				}
				for _, d := range fn.defsFor(en.text) {
					if strings.Contains(d, ".repr.(") || strings.Contains(d, ".export(") {
						uses = true
					}
				}
				if !uses {
					continue
				}
				guarded := false
				for _, c := range en.conds {
					if c == "!@value.unknown" {
						guarded = true
					}
				}
				if !guarded || !fn.precedes(cmb[0].node, en.node) {
					verdict = "an argument's repr is used without the unknown check: " + en.String()
				}
			}
		}
		flags = append(flags, [2]string{b[0], verdict})
	}
	e.comment("per builtin: \"ok\" = combine is called once with all evaluated arguments, and every statement that reads an argument's repr / exports it is guarded by !v.unknown and comes after combine (fn::toString: flags and text are those of value.toString)")
	e.pairs("ev_builtins_unknown_first", flags, "")

	// ---- 11. the remaining evaluator functions the model restates -----------------------------------------------------------------
	e.comment("11a. (*evalContext).evaluateInterpolate -- Model/Eval.v EInterp: text parts are appended; for a reference part the flags are OR-ed with those of toString of the (copied) value and its text is appended only if known; an unknown result has repr \"[unknown]\"")
	e.whole("ev_interpolate", ev, "evalContext", "evaluateInterpolate")
	e.comment("11b. (*evalContext).evaluateTypedExpr -- Model/Eval.v eval_typed / validate: evaluate, validate against the accepted schema, one diagnostic of its own if the validator rejected a value without unknowns silently")
	e.whole("ev_typed_expr", ev, "evalContext", "evaluateTypedExpr")
	e.comment("11c. (*evalContext).evaluateObject / evaluateArray -- Model/Eval.v EObj / EArr: properties are evaluated in SORTED key order (sort_entries; C09), elements in order")
	{
		fn, tbl := e.whole("ev_evaluate_object", ev, "evalContext", "evaluateObject")
		why, okv := "", false
		if fn == nil {
			why = "function not found"
		} else {
			srt := ecFind(tbl, "sort.Strings(@Keys)")
			var loop []ecEntry
			for _, en := range tbl {
				for _, c := range en.conds {
					if c == "each @Keys" && strings.Contains(en.text+" "+strings.Join(fn.defsFor(en.text), " "), "$r.evaluateExpr(") {
						loop = append(loop, en)
					}
				}
			}
			if len(srt) != 1 || len(loop) == 0 || fn.defs["@Keys"] != "maps.Keys($p1.properties)" {
				why = "sort.Strings(keys) / the loop over the keys not found"
			} else {
				okv = true
				for _, l := range loop {
					okv = okv && fn.precedes(srt[0].node, l.node)
				}
			}
		}
		e.boolean("ev_object_sorted_before_loop", okv, why)
	}
	e.whole("ev_evaluate_array", ev, "evalContext", "evaluateArray")
}
