package main

// C20 facts — cmd/esc/cli/client/client.go and retry.go.
//
// For every method of the `Client` interface: HTTP verb, fmt.Sprintf path template (or the use of
// resolveEnvironmentPath), where each template hole comes from (which string parameter of the method, or a
// constant such as DefaultProject), literal suffixes appended to the path, query keys (struct tags of the
// query object), the retry policy in effect, whether an ErrorResponse decoder is installed, which parameter
// feeds the etagHeader request header and how the response is consumed.  Methods that merely delegate to
// another method are resolved through the delegation.  Plus: the shouldRetry switch as a table, the policy
// constants and the default (zero) policy, MaxRetryCount, header names and the Authorization scheme.

import (
	"fmt"
	"go/ast"
	"go/constant"
	"go/token"
	"reflect"
	"strconv"
	"strings"
)

func init() { extraModules = append(extraModules, module{"SrcClient", c20SrcClient}) }

const c20ClientGo = "cmd/esc/cli/client/client.go"
const c20RetryGo = "cmd/esc/cli/client/retry.go"
const c20ApitypeGo = "cmd/esc/cli/client/apitype.go"

type c20HoleSrc struct {
	param int    // index into the string parameters of the method, or -1
	konst string // constant value when param < 0
	bad   bool
}

type c20OpFact struct {
	name       string
	verb       string
	resolve    bool
	template   string
	holes      []c20HoleSrc
	params     []string // names of the string parameters, in order
	suffix     string
	flagSuffix string
	query      [][2]string // key, "true"/"false" omitempty
	policy     string
	errResp    bool
	tagParam   int // index into params, or -1
	resp       string
	delegate   string
	ok         bool
	why        string
}

type c20ParamInfo struct {
	name string
	typ  string
}

func c20ExprString(e ast.Expr) string {
	switch x := e.(type) {
	case *ast.Ident:
		return x.Name
	case *ast.StarExpr:
		return "*" + c20ExprString(x.X)
	case *ast.SelectorExpr:
		return c20ExprString(x.X) + "." + x.Sel.Name
	case *ast.ArrayType:
		return "[]" + c20ExprString(x.Elt)
	case *ast.Ellipsis:
		return "..." + c20ExprString(x.Elt)
	}
	return "?"
}

func c20AllParams(fd *ast.FuncDecl) []c20ParamInfo {
	var out []c20ParamInfo
	for _, fl := range fd.Type.Params.List {
		t := c20ExprString(fl.Type)
		for _, n := range fl.Names {
			out = append(out, c20ParamInfo{n.Name, t})
		}
	}
	return out
}

func c20StringParams(ps []c20ParamInfo) []string {
	var out []string
	for _, p := range ps {
		if p.typ == "string" {
			out = append(out, p.name)
		}
	}
	return out
}

func c20IndexOf(l []string, s string) int {
	for i, x := range l {
		if x == s {
			return i
		}
	}
	return -1
}

// c20ClientMethod finds `func (pc *client) name(...)`.
func (f *facts) c20ClientMethod(name string) *ast.FuncDecl {
	a := f.file(c20ClientGo)
	if a == nil {
		return nil
	}
	for _, d := range a.Decls {
		fd, ok := d.(*ast.FuncDecl)
		if !ok || fd.Name.Name != name || fd.Recv == nil || len(fd.Recv.List) != 1 {
			continue
		}
		if c20ExprString(fd.Recv.List[0].Type) == "*client" {
			return fd
		}
	}
	return nil
}

func (f *facts) c20StringConst(rel, name string) (string, bool) {
	v, ok := litValue(f.constExpr(rel, name))
	if ok && v.Kind() == constant.String {
		return constant.StringVal(v), true
	}
	return "", false
}

func c20StrLit(e ast.Expr) (string, bool) {
	v, ok := litValue(e)
	if ok && v.Kind() == constant.String {
		return constant.StringVal(v), true
	}
	return "", false
}

// c20PcCall recognises pc.<name>(...).
func c20PcCall(n ast.Node) (string, *ast.CallExpr) {
	call, ok := n.(*ast.CallExpr)
	if !ok {
		return "", nil
	}
	sel, ok := call.Fun.(*ast.SelectorExpr)
	if !ok {
		return "", nil
	}
	if id, ok := sel.X.(*ast.Ident); !ok || id.Name != "pc" {
		return "", nil
	}
	return sel.Sel.Name, call
}

func c20IsSprintf(e ast.Expr) *ast.CallExpr {
	call, ok := e.(*ast.CallExpr)
	if !ok {
		return nil
	}
	sel, ok := call.Fun.(*ast.SelectorExpr)
	if !ok || sel.Sel.Name != "Sprintf" {
		return nil
	}
	if id, ok := sel.X.(*ast.Ident); !ok || id.Name != "fmt" {
		return nil
	}
	return call
}

func c20VerbOf(e ast.Expr) (string, bool) {
	if s, ok := c20StrLit(e); ok {
		return s, true
	}
	if sel, ok := e.(*ast.SelectorExpr); ok {
		if id, ok := sel.X.(*ast.Ident); ok && id.Name == "http" && strings.HasPrefix(sel.Sel.Name, "Method") {
			return strings.ToUpper(strings.TrimPrefix(sel.Sel.Name, "Method")), true
		}
	}
	return "", false
}

// c20StructTags returns (key, omitempty) for the `url:"..."` tags of a struct type.
func c20StructTags(st *ast.StructType) ([][2]string, bool) {
	var out [][2]string
	for _, fl := range st.Fields.List {
		if fl.Tag == nil {
			return nil, false
		}
		raw, err := strconv.Unquote(fl.Tag.Value)
		if err != nil {
			return nil, false
		}
		tag, ok := reflect.StructTag(raw).Lookup("url")
		if !ok {
			return nil, false
		}
		parts := strings.Split(tag, ",")
		omit := "false"
		for _, p := range parts[1:] {
			if p == "omitempty" {
				omit = "true"
			} else {
				return nil, false
			}
		}
		for range fl.Names {
			out = append(out, [2]string{parts[0], omit})
		}
	}
	return out, true
}

func (f *facts) c20NamedStruct(name string) *ast.StructType {
	for _, rel := range []string{c20ClientGo, c20ApitypeGo} {
		a := f.file(rel)
		if a == nil {
			continue
		}
		for _, d := range a.Decls {
			gd, ok := d.(*ast.GenDecl)
			if !ok {
				continue
			}
			for _, s := range gd.Specs {
				ts, ok := s.(*ast.TypeSpec)
				if ok && ts.Name.Name == name {
					if st, ok := ts.Type.(*ast.StructType); ok {
						return st
					}
				}
			}
		}
	}
	return nil
}

// c20LocalDef finds, in the body, the defining expression of a local identifier: `x := e`, `x, err := e`, or
// `var x T` (returned as the type expression with isType = true).
func c20LocalDef(body *ast.BlockStmt, name string) (def ast.Expr, isType bool) {
	ast.Inspect(body, func(n ast.Node) bool {
		if def != nil {
			return false
		}
		switch s := n.(type) {
		case *ast.AssignStmt:
			if s.Tok != token.DEFINE {
				return true
			}
			for i, l := range s.Lhs {
				if id, ok := l.(*ast.Ident); ok && id.Name == name {
					if len(s.Rhs) == len(s.Lhs) {
						def = s.Rhs[i]
					} else if len(s.Rhs) == 1 && i == 0 {
						def = s.Rhs[0]
					}
				}
			}
		case *ast.DeclStmt:
			if gd, ok := s.Decl.(*ast.GenDecl); ok {
				for _, sp := range gd.Specs {
					if vs, ok := sp.(*ast.ValueSpec); ok {
						for i, nm := range vs.Names {
							if nm.Name == name {
								if i < len(vs.Values) {
									def = vs.Values[i]
								} else if vs.Type != nil {
									def, isType = vs.Type, true
								}
							}
						}
					}
				}
			}
		}
		return true
	})
	return
}

func (f *facts) c20Analyse(name string, depth int) c20OpFact {
	o := c20OpFact{name: name, tagParam: -1}
	fail := func(format string, a ...any) c20OpFact {
		o.ok = false
		o.why = fmt.Sprintf(format, a...)
		return o
	}
	fd := f.c20ClientMethod(name)
	if fd == nil || fd.Body == nil {
		return fail("no method")
	}
	ps := c20AllParams(fd)
	o.params = c20StringParams(ps)

	defaultProject, _ := f.c20StringConst(c20ClientGo, "DefaultProject")

	// classify an argument expression as a hole source
	src := func(e ast.Expr) c20HoleSrc {
		if id, ok := e.(*ast.Ident); ok {
			if i := c20IndexOf(o.params, id.Name); i >= 0 {
				return c20HoleSrc{param: i}
			}
			if id.Name == "DefaultProject" {
				return c20HoleSrc{param: -1, konst: defaultProject}
			}
		}
		if s, ok := c20StrLit(e); ok {
			return c20HoleSrc{param: -1, konst: s}
		}
		return c20HoleSrc{param: -1, bad: true}
	}

	// collect pc.* calls
	var rest *ast.CallExpr
	var restName string
	var resolveCall *ast.CallExpr
	var delegCall *ast.CallExpr
	var delegName string
	nRest, nDeleg := 0, 0
	ast.Inspect(fd.Body, func(n ast.Node) bool {
		nm, call := c20PcCall(n)
		switch {
		case call == nil:
		case nm == "restCall" || nm == "restCallWithOptions":
			rest, restName = call, nm
			nRest++
		case nm == "resolveEnvironmentPath":
			resolveCall = call
		case f.c20ClientMethod(nm) != nil:
			delegCall, delegName = call, nm
			nDeleg++
		}
		return true
	})

	if nRest == 0 && nDeleg == 1 {
		if depth > 4 {
			return fail("delegation too deep")
		}
		t := f.c20Analyse(delegName, depth+1)
		if !t.ok {
			return fail("delegate %s: %s", delegName, t.why)
		}
		tfd := f.c20ClientMethod(delegName)
		tps := c20AllParams(tfd)
		tstr := c20StringParams(tps)
		if len(delegCall.Args) != len(tps) {
			return fail("delegation arity")
		}
		// position of the k-th string parameter of the target among all its parameters
		argOf := func(k int) ast.Expr {
			cnt := -1
			for i, p := range tps {
				if p.typ == "string" {
					cnt++
					if cnt == k {
						return delegCall.Args[i]
					}
				}
			}
			return nil
		}
		_ = tstr
		o.verb, o.resolve, o.template = t.verb, t.resolve, t.template
		o.suffix, o.flagSuffix, o.query, o.policy = t.suffix, t.flagSuffix, t.query, t.policy
		o.errResp, o.resp, o.delegate = t.errResp, t.resp, delegName
		for _, h := range t.holes {
			if h.param < 0 {
				o.holes = append(o.holes, h)
				continue
			}
			a := argOf(h.param)
			if a == nil {
				return fail("delegation hole")
			}
			hs := src(a)
			if hs.bad {
				return fail("delegation argument for hole not a parameter or constant")
			}
			o.holes = append(o.holes, hs)
		}
		if t.tagParam >= 0 {
			a := argOf(t.tagParam)
			hs := c20HoleSrc{bad: true}
			if a != nil {
				hs = src(a)
			}
			if hs.bad || hs.param < 0 {
				return fail("delegation tag argument")
			}
			o.tagParam = hs.param
		}
		o.ok = true
		return o
	}
	if nRest != 1 || nDeleg != 0 {
		return fail("expected exactly one restCall (%d) or one delegation (%d)", nRest, nDeleg)
	}
	if len(rest.Args) < 6 {
		return fail("restCall arity")
	}
	var okv bool
	if o.verb, okv = c20VerbOf(rest.Args[1]); !okv {
		return fail("verb")
	}

	// ---- path
	pathArg := rest.Args[2]
	if s, ok := c20StrLit(pathArg); ok {
		o.template = s
	} else if id, ok := pathArg.(*ast.Ident); ok {
		def, isType := c20LocalDef(fd.Body, id.Name)
		if def == nil || isType {
			return fail("path definition")
		}
		if sp := c20IsSprintf(def); sp != nil {
			t, ok := c20StrLit(sp.Args[0])
			if !ok {
				return fail("template literal")
			}
			o.template = t
			for _, a := range sp.Args[1:] {
				hs := src(a)
				if hs.bad {
					return fail("template argument not a parameter or constant")
				}
				o.holes = append(o.holes, hs)
			}
		} else if nm, call := c20PcCall(def); nm == "resolveEnvironmentPath" && call == resolveCall && len(call.Args) == 4 {
			o.resolve = true
			for _, a := range call.Args {
				hs := src(a)
				if hs.bad {
					return fail("resolve argument not a parameter or constant")
				}
				o.holes = append(o.holes, hs)
			}
		} else {
			return fail("path shape")
		}
		// suffixes: `path += "lit"` at top level, or inside `if <boolParam> { ... }`
		for _, st := range fd.Body.List {
			switch s := st.(type) {
			case *ast.AssignStmt:
				if s.Tok == token.ADD_ASSIGN && len(s.Lhs) == 1 {
					if l, ok := s.Lhs[0].(*ast.Ident); ok && l.Name == id.Name {
						lit, ok := c20StrLit(s.Rhs[0])
						if !ok || o.suffix != "" {
							return fail("suffix shape")
						}
						o.suffix = lit
					}
				}
			case *ast.IfStmt:
				for _, in := range s.Body.List {
					as, ok := in.(*ast.AssignStmt)
					if !ok || as.Tok != token.ADD_ASSIGN || len(as.Lhs) != 1 {
						continue
					}
					if l, ok := as.Lhs[0].(*ast.Ident); ok && l.Name == id.Name {
						lit, ok := c20StrLit(as.Rhs[0])
						cond, isId := s.Cond.(*ast.Ident)
						if !ok || !isId || o.flagSuffix != "" || s.Init != nil || s.Else != nil {
							return fail("conditional suffix shape")
						}
						found := false
						for _, p := range ps {
							if p.name == cond.Name && p.typ == "bool" {
								found = true
							}
						}
						if !found {
							return fail("conditional suffix guard is not a bool parameter")
						}
						o.flagSuffix = lit
					}
				}
			}
		}
	} else {
		return fail("path argument")
	}
	if resolveCall != nil && !o.resolve {
		return fail("resolveEnvironmentPath used in an unrecognised way")
	}

	// ---- query object
	switch q := rest.Args[3].(type) {
	case *ast.Ident:
		if q.Name == "nil" {
			break
		}
		var st *ast.StructType
		if def, isType := c20LocalDef(fd.Body, q.Name); def != nil && !isType {
			if cl, ok := def.(*ast.CompositeLit); ok {
				switch t := cl.Type.(type) {
				case *ast.StructType:
					st = t
				case *ast.Ident:
					st = f.c20NamedStruct(t.Name)
				}
			}
		} else {
			for _, p := range ps {
				if p.name == q.Name {
					st = f.c20NamedStruct(p.typ)
				}
			}
		}
		if st == nil {
			return fail("query object type")
		}
		tags, ok := c20StructTags(st)
		if !ok {
			return fail("query struct tags")
		}
		o.query = tags
	default:
		return fail("query argument")
	}

	// ---- response object
	switch r := rest.Args[5].(type) {
	case *ast.Ident:
		if r.Name != "nil" {
			return fail("response argument")
		}
		o.resp = "none"
	case *ast.UnaryExpr:
		id, ok := r.X.(*ast.Ident)
		if !ok || r.Op != token.AND {
			return fail("response argument")
		}
		o.resp = "json"
		if def, isType := c20LocalDef(fd.Body, id.Name); def != nil && isType && c20ExprString(def) == "*http.Response" {
			o.resp = "raw"
		}
	default:
		return fail("response argument")
	}

	// ---- options
	o.policy = "" // default policy
	if restName == "restCallWithOptions" {
		if len(rest.Args) != 7 {
			return fail("options arity")
		}
		cl, ok := rest.Args[6].(*ast.CompositeLit)
		if !ok || c20ExprString(cl.Type) != "httpCallOptions" {
			return fail("options literal")
		}
		for _, el := range cl.Elts {
			kv, ok := el.(*ast.KeyValueExpr)
			if !ok {
				return fail("options element")
			}
			switch c20ExprString(kv.Key) {
			case "ErrorResponse":
				o.errResp = true
			case "RetryPolicy":
				id, ok := kv.Value.(*ast.Ident)
				if !ok {
					return fail("RetryPolicy value")
				}
				o.policy = id.Name
			case "Header":
				hid, ok := kv.Value.(*ast.Ident)
				if !ok {
					return fail("Header value")
				}
				// if tag != "" { header.Set(etagHeader, tag) }
				found := false
				ast.Inspect(fd.Body, func(n ast.Node) bool {
					is, ok := n.(*ast.IfStmt)
					if !ok {
						return true
					}
					be, ok := is.Cond.(*ast.BinaryExpr)
					if !ok || be.Op != token.NEQ {
						return true
					}
					guard, ok1 := be.X.(*ast.Ident)
					empty, ok2 := c20StrLit(be.Y)
					if !ok1 || !ok2 || empty != "" || len(is.Body.List) != 1 {
						return true
					}
					es, ok := is.Body.List[0].(*ast.ExprStmt)
					if !ok {
						return true
					}
					call, ok := es.X.(*ast.CallExpr)
					if !ok || len(call.Args) != 2 || c20ExprString(call.Fun) != hid.Name+".Set" {
						return true
					}
					if c20ExprString(call.Args[0]) == "etagHeader" && c20ExprString(call.Args[1]) == guard.Name {
						if i := c20IndexOf(o.params, guard.Name); i >= 0 {
							o.tagParam = i
							found = true
						}
					}
					return true
				})
				if !found {
					return fail("Header option without the recognised etagHeader guard")
				}
			case "GzipCompress":
				return fail("GzipCompress is not modelled")
			default:
				return fail("unknown option")
			}
		}
	}
	o.ok = true
	return o
}

func c20CoqStr(s string) string {
	plain := true
	for i := 0; i < len(s); i++ {
		if s[i] < 0x20 || s[i] > 0x7e || s[i] == '"' {
			plain = false
		}
	}
	if plain {
		return `"` + s + `"`
	}
	return coqString(s)
}

func c20CoqBool(b bool) string {
	if b {
		return "true"
	}
	return "false"
}

func c20SrcClient(f *facts, o *out) {
	o.add("Inductive hole_src := HParam (i : nat) | HConst (s : string).")
	o.add("Inductive retry_rule := RNever | RAlways | RMethodIs (m : string).")
	o.add("Record op_fact := mk_op { of_name : string; of_verb : string; of_resolve : bool; of_template : string;")
	o.add("  of_holes : list hole_src; of_params : list string; of_suffix : string; of_flag_suffix : string;")
	o.add("  of_query : list (string * bool); of_policy : string; of_err_resp : bool; of_tag_param : option nat;")
	o.add("  of_resp : string; of_delegate : string }.")

	// ---- interface methods
	var methods []string
	if a := f.file(c20ClientGo); a != nil {
		for _, d := range a.Decls {
			gd, ok := d.(*ast.GenDecl)
			if !ok {
				continue
			}
			for _, s := range gd.Specs {
				ts, ok := s.(*ast.TypeSpec)
				if !ok || ts.Name.Name != "Client" {
					continue
				}
				if it, ok := ts.Type.(*ast.InterfaceType); ok {
					for _, m := range it.Methods.List {
						for _, n := range m.Names {
							methods = append(methods, n.Name)
						}
					}
				}
			}
		}
	}
	// methods that issue no request: body is a single `return pc.<field>`
	isAccessor := func(name string) bool {
		fd := f.c20ClientMethod(name)
		if fd == nil || fd.Body == nil || len(fd.Body.List) != 1 {
			return false
		}
		rs, ok := fd.Body.List[0].(*ast.ReturnStmt)
		if !ok || len(rs.Results) != 1 {
			return false
		}
		sel, ok := rs.Results[0].(*ast.SelectorExpr)
		if !ok {
			return false
		}
		id, ok := sel.X.(*ast.Ident)
		return ok && id.Name == "pc"
	}

	allOK := len(methods) > 0
	var ops, accessors []string
	for _, m := range methods {
		if isAccessor(m) {
			accessors = append(accessors, c20CoqStr(m))
			continue
		}
		fa := f.c20Analyse(m, 0)
		if !fa.ok {
			allOK = false
			f.status["client_ops:"+m] = "unrecognised: " + fa.why
			continue
		}
		var holes []string
		for _, h := range fa.holes {
			if h.param >= 0 {
				holes = append(holes, fmt.Sprintf("HParam %d", h.param))
			} else {
				holes = append(holes, "HConst "+c20CoqStr(h.konst))
			}
		}
		var params, query []string
		for _, p := range fa.params {
			params = append(params, c20CoqStr(p))
		}
		for _, q := range fa.query {
			query = append(query, fmt.Sprintf("(%s, %s)", c20CoqStr(q[0]), q[1]))
		}
		tag := "None"
		if fa.tagParam >= 0 {
			tag = fmt.Sprintf("(Some %d%%nat)", fa.tagParam)
		}
		ops = append(ops, fmt.Sprintf("  mk_op %s %s %s %s [%s]\n    [%s] %s %s [%s] %s %s %s %s %s",
			c20CoqStr(fa.name), c20CoqStr(fa.verb), c20CoqBool(fa.resolve), c20CoqStr(fa.template), strings.Join(holes, "; "),
			strings.Join(params, "; "), c20CoqStr(fa.suffix), c20CoqStr(fa.flagSuffix), strings.Join(query, "; "),
			c20CoqStr(fa.policy), c20CoqBool(fa.errResp), tag, c20CoqStr(fa.resp), c20CoqStr(fa.delegate)))
	}
	o.add("Definition client_ops : list op_fact := [\n%s\n].", strings.Join(ops, ";\n"))
	o.add("Definition client_accessors : list string := [%s].", strings.Join(accessors, "; "))
	var ms []string
	for _, m := range methods {
		ms = append(ms, c20CoqStr(m))
	}
	o.add("Definition client_interface : list string := [%s].", strings.Join(ms, "; "))
	if allOK {
		f.status["client_ops"] = "ok"
	} else {
		f.status["client_ops"] = "unrecognised"
	}

	// ---- resolveEnvironmentPath: `if version == "" { return Sprintf(T1, o, p, e), nil }; return Sprintf(T2, o, p, e, version), nil`
	tNo, tVer := "", ""
	if fd := f.c20ClientMethod("resolveEnvironmentPath"); fd != nil && fd.Body != nil && len(fd.Body.List) == 2 {
		ps := c20StringParams(c20AllParams(fd))
		okArgs := func(sp *ast.CallExpr, n int) bool {
			if len(sp.Args) != n+1 || len(ps) < n {
				return false
			}
			for i := 0; i < n; i++ {
				if c20ExprString(sp.Args[i+1]) != ps[i] {
					return false
				}
			}
			return true
		}
		retTpl := func(st ast.Stmt, n int) string {
			rs, ok := st.(*ast.ReturnStmt)
			if !ok || len(rs.Results) != 2 {
				return ""
			}
			sp := c20IsSprintf(rs.Results[0])
			if sp == nil || !okArgs(sp, n) {
				return ""
			}
			t, _ := c20StrLit(sp.Args[0])
			return t
		}
		if is, ok := fd.Body.List[0].(*ast.IfStmt); ok && len(ps) == 4 && len(is.Body.List) == 1 {
			if be, ok := is.Cond.(*ast.BinaryExpr); ok && be.Op == token.EQL && c20ExprString(be.X) == ps[3] {
				if e, ok := c20StrLit(be.Y); ok && e == "" {
					tNo = retTpl(is.Body.List[0], 3)
					tVer = retTpl(fd.Body.List[1], 4)
				}
			}
		}
	}
	if tNo != "" && tVer != "" {
		f.status["resolve_templates"] = "ok"
	} else {
		f.status["resolve_templates"] = "unrecognised"
		tNo, tVer = "/api/esc/environments/%v/%v/%v", "/api/esc/environments/%v/%v/%v/versions/%v"
	}
	o.add("Definition resolve_template_noversion : string := %s.", c20CoqStr(tNo))
	o.add("Definition resolve_template_version : string := %s.", c20CoqStr(tVer))

	// ---- retry policies: const block with iota, shouldRetry switch, default (zero) policy
	type pol struct {
		name string
		val  int
	}
	var pols []pol
	if a := f.file(c20RetryGo); a != nil {
		for _, d := range a.Decls {
			gd, ok := d.(*ast.GenDecl)
			if !ok || gd.Tok != token.CONST {
				continue
			}
			offset, isPolicy := 0, false
			for i, s := range gd.Specs {
				vs := s.(*ast.ValueSpec)
				if i == 0 {
					if vs.Type == nil || c20ExprString(vs.Type) != "retryPolicy" || len(vs.Values) != 1 {
						break
					}
					switch v := vs.Values[0].(type) {
					case *ast.Ident:
						if v.Name == "iota" {
							isPolicy = true
						}
					case *ast.BinaryExpr:
						if id, ok := v.X.(*ast.Ident); ok && id.Name == "iota" {
							if k, ok := litValue(v.Y); ok && k.Kind() == constant.Int {
								n, _ := strconv.Atoi(k.ExactString())
								if v.Op == token.SUB {
									offset, isPolicy = -n, true
								} else if v.Op == token.ADD {
									offset, isPolicy = n, true
								}
							}
						}
					}
				} else if len(vs.Values) != 0 {
					isPolicy = false
				}
				if !isPolicy {
					break
				}
				for _, n := range vs.Names {
					pols = append(pols, pol{n.Name, i + offset})
				}
			}
		}
	}
	defPol := ""
	for _, p := range pols {
		if p.val == 0 {
			defPol = p.name
		}
	}
	var rules []string
	rulesOK := false
	if a := f.file(c20RetryGo); a != nil {
		for _, d := range a.Decls {
			fd, ok := d.(*ast.FuncDecl)
			if !ok || fd.Name.Name != "shouldRetry" || fd.Body == nil || len(fd.Body.List) != 1 {
				continue
			}
			sw, ok := fd.Body.List[0].(*ast.SwitchStmt)
			if !ok {
				continue
			}
			rulesOK = true
			for _, c := range sw.Body.List {
				cc := c.(*ast.CaseClause)
				if cc.List == nil {
					continue // default: contract.Failf
				}
				if len(cc.Body) != 1 {
					rulesOK = false
					continue
				}
				rs, ok := cc.Body[0].(*ast.ReturnStmt)
				if !ok || len(rs.Results) != 1 {
					rulesOK = false
					continue
				}
				rule := ""
				switch r := rs.Results[0].(type) {
				case *ast.Ident:
					if r.Name == "true" {
						rule = "RAlways"
					} else if r.Name == "false" {
						rule = "RNever"
					}
				case *ast.BinaryExpr:
					if r.Op == token.EQL && c20ExprString(r.X) == "req.Method" {
						if v, ok := c20VerbOf(r.Y); ok {
							rule = "RMethodIs " + c20CoqStr(v)
						}
					}
				}
				if rule == "" {
					rulesOK = false
					continue
				}
				for _, e := range cc.List {
					rules = append(rules, fmt.Sprintf("(%s, %s)", c20CoqStr(c20ExprString(e)), rule))
				}
			}
		}
	}
	if rulesOK && defPol != "" {
		f.status["should_retry_table"] = "ok"
		f.status["default_policy"] = "ok"
	} else {
		f.status["should_retry_table"] = "unrecognised"
		f.status["default_policy"] = "unrecognised"
		rules = []string{`("retryNone", RNever)`, `("retryGetMethod", RMethodIs "GET")`, `("retryAllMethods", RAlways)`}
		defPol = "retryGetMethod"
	}
	o.add("Definition should_retry_table : list (string * retry_rule) := [%s].", strings.Join(rules, "; "))
	o.add("Definition default_policy : string := %s.", c20CoqStr(defPol))

	// ---- MaxRetryCount: some(int(4)) in doWithRetry, and doWithRetry's guard `if policy.shouldRetry(req)`
	maxRetry := ""
	if fd := f.funcDecl(c20RetryGo, "doWithRetry"); fd != nil {
		ast.Inspect(fd.Body, func(n ast.Node) bool {
			kv, ok := n.(*ast.KeyValueExpr)
			if !ok || c20ExprString(kv.Key) != "MaxRetryCount" {
				return true
			}
			if call, ok := kv.Value.(*ast.CallExpr); ok && c20ExprString(call.Fun) == "some" && len(call.Args) == 1 {
				if v, ok := litValue(call.Args[0]); ok && v.Kind() == constant.Int {
					maxRetry = v.ExactString()
				}
			}
			return true
		})
	}
	if maxRetry != "" {
		f.status["max_retry_count"] = "ok"
	} else {
		f.status["max_retry_count"] = "unrecognised"
		maxRetry = "4"
	}
	o.add("Definition max_retry_count : N := %s.", maxRetry)

	// ---- header names and Authorization scheme
	hdrOK := true
	etag, ok1 := f.c20StringConst(c20ClientGo, "etagHeader")
	rev, ok2 := f.c20StringConst(c20ClientGo, "revisionHeader")
	authName, authFmt := "", ""
	if fd := f.c20ClientMethod("httpCall"); fd != nil {
		ast.Inspect(fd.Body, func(n ast.Node) bool {
			call, ok := n.(*ast.CallExpr)
			if !ok || c20ExprString(call.Fun) != "req.Header.Set" || len(call.Args) != 2 {
				return true
			}
			sp := c20IsSprintf(call.Args[1])
			if sp == nil || len(sp.Args) != 2 || c20ExprString(sp.Args[1]) != "pc.apiToken" {
				return true
			}
			authName, _ = c20StrLit(call.Args[0])
			authFmt, _ = c20StrLit(sp.Args[0])
			return true
		})
	}
	if !ok1 || !ok2 || authName == "" || authFmt == "" {
		hdrOK = false
		etag, rev, authName, authFmt = "ETag", "Pulumi-ESC-Revision", "Authorization", "token %s"
	}
	if hdrOK {
		f.status["client_headers"] = "ok"
	} else {
		f.status["client_headers"] = "unrecognised"
	}
	// ---- optional guard in httpCall: `if cleaned := cleanPath(path); cleaned != path { return nil, ... }`
	// (the request is refused when cleaning would change its path); absent in the original source
	rejectUnclean := false
	if fd := f.c20ClientMethod("httpCall"); fd != nil {
		for _, st := range fd.Body.List {
			is, ok := st.(*ast.IfStmt)
			if !ok || is.Init == nil || len(is.Body.List) == 0 {
				continue
			}
			as, ok := is.Init.(*ast.AssignStmt)
			if !ok || as.Tok != token.DEFINE || len(as.Lhs) != 1 || len(as.Rhs) != 1 {
				continue
			}
			call, ok := as.Rhs[0].(*ast.CallExpr)
			if !ok || c20ExprString(call.Fun) != "cleanPath" || len(call.Args) != 1 || c20ExprString(call.Args[0]) != "path" {
				continue
			}
			be, ok := is.Cond.(*ast.BinaryExpr)
			if !ok || be.Op != token.NEQ || c20ExprString(be.X) != c20ExprString(as.Lhs[0]) || c20ExprString(be.Y) != "path" {
				continue
			}
			if rs, ok := is.Body.List[len(is.Body.List)-1].(*ast.ReturnStmt); ok && len(rs.Results) == 2 && c20ExprString(rs.Results[0]) == "nil" {
				rejectUnclean = true
			}
		}
	}
	o.add("Definition reject_unclean_path : bool := %s.", c20CoqBool(rejectUnclean))
	f.status["reject_unclean_path"] = "ok"
	if dp, ok := f.c20StringConst(c20ClientGo, "DefaultProject"); ok {
		o.add("Definition default_project : string := %s.", c20CoqStr(dp))
		f.status["default_project"] = "ok"
	} else {
		o.add("Definition default_project : string := %s.", c20CoqStr("default"))
		f.status["default_project"] = "unrecognised"
	}
	o.add("Definition etag_header : string := %s.", c20CoqStr(etag))
	o.add("Definition revision_header : string := %s.", c20CoqStr(rev))
	o.add("Definition auth_header : string := %s.", c20CoqStr(authName))
	o.add("Definition auth_format : string := %s.", c20CoqStr(authFmt))
}
