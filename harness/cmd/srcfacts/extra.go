package main

type module struct {
	name string
	fn   func(*facts, *out)
}

var extraModules []module
