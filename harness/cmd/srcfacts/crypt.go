package main

// Facts for Model/Crypt.v and Model/YamlTree.v (properties C04, C12), written to coq/Src/SrcCrypt.v:
// the names compared by the syntactic (eval/crypt.go) and the semantic (ast/expr.go) recognition of fn::secret,
// whether ast.parseSecret takes the plaintext literally / reads the inner key nil-safely, and the word tables of
// MarshalYAML (spellings of null that are kept, words that force single quotes).

import (
	"go/ast"
	"go/constant"
	"go/token"
	"strings"
)

func init() {
	extraModules = append(extraModules, module{name: "SrcCrypt", fn: srcCrypt})
}

func cyStrLit(e ast.Expr) (string, bool) {
	v, ok := litValue(e)
	if !ok || v.Kind() != constant.String {
		return "", false
	}
	return constant.StringVal(v), true
}

// cyCmpLiterals collects, in source order, (op, literal, lhs) of every `X == "lit"` / `X != "lit"` in body.
type cyCmpLit struct {
	op  token.Token
	lit string
	lhs ast.Expr
}

func cyCmpLiterals(body ast.Node) []cyCmpLit {
	var out []cyCmpLit
	ast.Inspect(body, func(n ast.Node) bool {
		be, ok := n.(*ast.BinaryExpr)
		if !ok || (be.Op != token.EQL && be.Op != token.NEQ) {
			return true
		}
		if s, ok := cyStrLit(be.Y); ok {
			out = append(out, cyCmpLit{be.Op, s, be.X})
		}
		return true
	})
	return out
}

func cyCoqStrList(l []string) string {
	parts := make([]string, len(l))
	for i, s := range l {
		parts[i] = coqString(s)
	}
	return "[" + strings.Join(parts, "; ") + "]"
}

func srcCrypt(f *facts, o *out) {
	emitStr := func(name, val, dflt string, ok bool) {
		if ok {
			o.add("Definition %s : string := %s.", name, coqString(val))
			f.status[name] = "ok"
		} else {
			o.add("Definition %s : string := %s. (* default *)", name, coqString(dflt))
			f.status[name] = "unrecognised"
		}
	}
	emitBool := func(name string, val, ok bool) {
		b := "false"
		if val {
			b = "true"
		}
		if ok {
			o.add("Definition %s : bool := %s.", name, b)
			f.status[name] = "ok"
		} else {
			o.add("Definition %s : bool := false. (* default *)", name)
			f.status[name] = "unrecognised"
		}
	}

	// ---- eval/crypt.go parseSecret: `... != "fn::secret"` then `... == "ciphertext"`
	{
		var fn, key string
		var okFn, okKey bool
		if fd := f.funcDecl("eval/crypt.go", "parseSecret"); fd != nil {
			for _, c := range cyCmpLiterals(fd.Body) {
				if c.op == token.NEQ && !okFn {
					fn, okFn = c.lit, true
				} else if c.op == token.EQL && !okKey {
					key, okKey = c.lit, true
				}
			}
		}
		emitStr("crypt_fn_secret", fn, "fn::secret", okFn)
		emitStr("crypt_key_ciphertext", key, "ciphertext", okKey)
	}
	// ---- eval/crypt.go EncryptSecrets: the key of the synthesised object, syntax.String("<lit>")
	{
		var key string
		ok := false
		if fd := f.funcDecl("eval/crypt.go", "EncryptSecrets"); fd != nil {
			ast.Inspect(fd.Body, func(n ast.Node) bool {
				call, isCall := n.(*ast.CallExpr)
				if !isCall || ok || len(call.Args) != 1 {
					return true
				}
				if sel, isSel := call.Fun.(*ast.SelectorExpr); isSel && sel.Sel.Name == "String" {
					if s, isLit := cyStrLit(call.Args[0]); isLit {
						key, ok = s, true
					}
				}
				return true
			})
		}
		emitStr("crypt_new_key", key, "ciphertext", ok)
	}
	// ---- ast/expr.go tryParseFunction: `case "<lit>": parse = parseSecret`
	{
		var fn string
		ok := false
		if fd := f.funcDecl("ast/expr.go", "tryParseFunction"); fd != nil {
			ast.Inspect(fd.Body, func(n ast.Node) bool {
				cc, isCC := n.(*ast.CaseClause)
				if !isCC || ok || len(cc.List) != 1 || len(cc.Body) != 1 {
					return true
				}
				as, isAs := cc.Body[0].(*ast.AssignStmt)
				if !isAs || len(as.Rhs) != 1 {
					return true
				}
				if id, isId := as.Rhs[0].(*ast.Ident); isId && id.Name == "parseSecret" {
					if s, isLit := cyStrLit(cc.List[0]); isLit {
						fn, ok = s, true
					}
				}
				return true
			})
		}
		emitStr("ast_fn_secret", fn, "fn::secret", ok)
	}
	// ---- ast/expr.go parseSecret: `kvp.Key.Value == "<lit>"` (or kvp.Key.GetValue()), StringSyntax(lit) re-read
	{
		var key string
		okKey, nilSafe, literal, found := false, false, false, false
		if fd := f.funcDecl("ast/expr.go", "parseSecret"); fd != nil {
			found = true
			for _, c := range cyCmpLiterals(fd.Body) {
				if c.op == token.EQL && !okKey {
					key, okKey = c.lit, true
					if call, isCall := c.lhs.(*ast.CallExpr); isCall {
						if sel, isSel := call.Fun.(*ast.SelectorExpr); isSel && sel.Sel.Name == "GetValue" {
							nilSafe = true
						}
					}
				}
			}
			ast.Inspect(fd.Body, func(n ast.Node) bool {
				if call, isCall := n.(*ast.CallExpr); isCall {
					if id, isId := call.Fun.(*ast.Ident); isId && id.Name == "StringSyntax" {
						literal = true
					}
				}
				return true
			})
		}
		emitStr("ast_key_ciphertext", key, "ciphertext", okKey)
		emitBool("ast_key_nil_safe", nilSafe, okKey)
		emitBool("ast_plain_literal", literal, found)
	}
	// ---- syntax/encoding/yaml.go MarshalYAML: `switch yamlNode.Value { case <null spellings>: ...`, and the
	//      `value == "true" || value == "false"` quoting words
	{
		var nulls, quotes []string
		okN, okQ := false, false
		if fd := f.funcDecl("syntax/encoding/yaml.go", "MarshalYAML"); fd != nil {
			ast.Inspect(fd.Body, func(n ast.Node) bool {
				sw, isSw := n.(*ast.SwitchStmt)
				if !isSw || okN || sw.Tag == nil {
					return true
				}
				sel, isSel := sw.Tag.(*ast.SelectorExpr)
				if !isSel || sel.Sel.Name != "Value" {
					return true
				}
				for _, st := range sw.Body.List {
					cc := st.(*ast.CaseClause)
					if len(cc.List) == 0 {
						continue
					}
					all := true
					var ws []string
					for _, e := range cc.List {
						s, isLit := cyStrLit(e)
						all = all && isLit
						ws = append(ws, s)
					}
					if all {
						nulls, okN = ws, true
						break
					}
				}
				return true
			})
			for _, c := range cyCmpLiterals(fd.Body) {
				if id, isId := c.lhs.(*ast.Ident); isId && id.Name == "value" && c.op == token.EQL {
					quotes = append(quotes, c.lit)
					okQ = true
				}
			}
		}
		if okN {
			o.add("Definition marshal_null_words : list string := %s.", cyCoqStrList(nulls))
			f.status["marshal_null_words"] = "ok"
		} else {
			o.add("Definition marshal_null_words : list string := %s. (* default *)", cyCoqStrList([]string{"null", "Null", "NULL", "~"}))
			f.status["marshal_null_words"] = "unrecognised"
		}
		if okQ {
			o.add("Definition marshal_quote_words : list string := %s.", cyCoqStrList(quotes))
			f.status["marshal_quote_words"] = "ok"
		} else {
			o.add("Definition marshal_quote_words : list string := %s. (* default *)", cyCoqStrList([]string{"true", "false"}))
			f.status["marshal_quote_words"] = "unrecognised"
		}
	}
	// ---- syntax/encoding/yaml.go MarshalYAML, the guard of fix 9b9d633 for strings yaml.v3 cannot write as block scalars:
	//        if yamlNode.Style&(yaml.SingleQuotedStyle|yaml.DoubleQuotedStyle) == 0 && strings.Contains(value, "<lit>") {
	//            for _, prefix := range []string{<lits>} { if strings.HasPrefix(value, prefix) { yamlNode.Style = ...DoubleQuotedStyle } }
	//        }
	//      Recognised: an if statement whose condition mentions both quoted styles and strings.Contains(value, lit) and
	//      whose body ranges over a []string literal testing strings.HasPrefix and assigning a style with DoubleQuotedStyle.
	//      Not recognised (guard removed or reshaped): the empty prefix list, i.e. a model WITHOUT the guard, and the
	//      side condition C12_src_block_guard_ok breaks.
	{
		var prefixes []string
		contains := ""
		ok := false
		mentions := func(n ast.Node, name string) bool {
			found := false
			ast.Inspect(n, func(x ast.Node) bool {
				if sel, isSel := x.(*ast.SelectorExpr); isSel && sel.Sel.Name == name {
					found = true
				}
				return !found
			})
			return found
		}
		if fd := f.funcDecl("syntax/encoding/yaml.go", "MarshalYAML"); fd != nil {
			ast.Inspect(fd.Body, func(n ast.Node) bool {
				ifs, isIf := n.(*ast.IfStmt)
				if !isIf || ok {
					return true
				}
				if !mentions(ifs.Cond, "SingleQuotedStyle") || !mentions(ifs.Cond, "DoubleQuotedStyle") {
					return true
				}
				lit, okC := "", false
				ast.Inspect(ifs.Cond, func(x ast.Node) bool {
					call, isCall := x.(*ast.CallExpr)
					if !isCall || len(call.Args) != 2 {
						return true
					}
					if sel, isSel := call.Fun.(*ast.SelectorExpr); isSel && sel.Sel.Name == "Contains" {
						if id, isId := call.Args[0].(*ast.Ident); isId && id.Name == "value" {
							if s, isLit := cyStrLit(call.Args[1]); isLit {
								lit, okC = s, true
							}
						}
					}
					return true
				})
				if !okC {
					return true
				}
				for _, st := range ifs.Body.List {
					rs, isRange := st.(*ast.RangeStmt)
					if !isRange {
						continue
					}
					cl, isCL := rs.X.(*ast.CompositeLit)
					if !isCL || !mentions(rs.Body, "HasPrefix") || !mentions(rs.Body, "DoubleQuotedStyle") {
						continue
					}
					var ws []string
					all := len(cl.Elts) > 0
					for _, e := range cl.Elts {
						s, isLit := cyStrLit(e)
						all = all && isLit
						ws = append(ws, s)
					}
					if all {
						prefixes, contains, ok = ws, lit, true
					}
				}
				return true
			})
		}
		if ok {
			o.add("Definition marshal_block_prefixes : list string := %s.", cyCoqStrList(prefixes))
			o.add("Definition marshal_block_contains : string := %s.", coqString(contains))
			f.status["marshal_block_prefixes"] = "ok"
		} else {
			o.add("Definition marshal_block_prefixes : list string := []. (* guard not recognised: modelled as absent *)")
			o.add("Definition marshal_block_contains : string := %s.", coqString("\n"))
			f.status["marshal_block_prefixes"] = "unrecognised"
		}
	}
}
