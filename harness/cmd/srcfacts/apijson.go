// C18: struct tables of the JSON API types (value.go, expr.go, environment.go, schema/schema.go):
// exported fields in declaration order (embedded structs flattened) with JSON name, omitempty, `json:"-"`
// and type, plus which custom (Un)MarshalJSON methods exist and whether their shape is the recognised one.
// Writes coq/Src/SrcApiJson.v and coq/Src/SrcApiJson.tables.json (the same tables for the case generator).
package main

import (
	"encoding/json"
	"fmt"
	"go/ast"
	"go/token"
	"os"
	"path/filepath"
	"reflect"
	"sort"
	"strconv"
	"strings"
)

func init() {
	extraModules = append(extraModules, module{"SrcApiJson", srcApiJSON})
}

type ajField struct {
	Go   string `json:"go"`
	JSON string `json:"json"`
	Omit bool   `json:"omit"`
	Skip bool   `json:"skip"`
	Ty   any    `json:"ty"` // "bool" | "int" | "str" | "num" | "any" | ["ptr",t] | ["slice",t] | ["map",t] | ["named",n]
}

type ajStruct struct {
	Name      string    `json:"name"`
	Fields    []ajField `json:"fields"`
	Marshal   string    `json:"marshal"`
	Unmarshal string    `json:"unmarshal"`
}

type ajState struct {
	f       *facts
	structs map[string]*ast.StructType // model name -> decl
	file    map[string]string          // model name -> file
	bad     []string
}

var ajFiles = []string{"value.go", "expr.go", "environment.go", "schema/schema.go"}

func (st *ajState) load() {
	for _, rel := range ajFiles {
		a := st.f.file(rel)
		if a == nil {
			st.bad = append(st.bad, "cannot parse "+rel)
			continue
		}
		for _, d := range a.Decls {
			gd, ok := d.(*ast.GenDecl)
			if !ok || gd.Tok != token.TYPE {
				continue
			}
			for _, s := range gd.Specs {
				ts := s.(*ast.TypeSpec)
				if stt, ok := ts.Type.(*ast.StructType); ok {
					st.structs[ts.Name.Name] = stt
					st.file[ts.Name.Name] = rel
				}
			}
		}
	}
}

// typeOf converts a Go type expression into the model's type language.
func (st *ajState) typeOf(e ast.Expr) (any, bool) {
	switch x := e.(type) {
	case *ast.Ident:
		switch x.Name {
		case "bool":
			return "bool", true
		case "int":
			return "int", true
		case "string":
			return "str", true
		case "any":
			return "any", true
		}
		if _, ok := st.structs[x.Name]; ok {
			return []any{"named", x.Name}, true
		}
		return nil, false
	case *ast.InterfaceType:
		if x.Methods == nil || len(x.Methods.List) == 0 {
			return "any", true
		}
		return nil, false
	case *ast.SelectorExpr:
		pkg, _ := x.X.(*ast.Ident)
		if pkg == nil {
			return nil, false
		}
		switch pkg.Name + "." + x.Sel.Name {
		case "json.Number":
			return "num", true
		case "schema.Schema":
			return []any{"named", "Schema"}, true
		}
		return nil, false
	case *ast.StarExpr:
		t, ok := st.typeOf(x.X)
		return []any{"ptr", t}, ok
	case *ast.ArrayType:
		if x.Len != nil {
			return nil, false
		}
		t, ok := st.typeOf(x.Elt)
		return []any{"slice", t}, ok
	case *ast.MapType:
		if k, ok := x.Key.(*ast.Ident); !ok || k.Name != "string" {
			return nil, false
		}
		t, ok := st.typeOf(x.Value)
		return []any{"map", t}, ok
	}
	return nil, false
}

func (st *ajState) fieldsOf(name string, stt *ast.StructType) []ajField {
	var out []ajField
	for _, fl := range stt.Fields.List {
		tag := ""
		if fl.Tag != nil {
			if s, err := strconv.Unquote(fl.Tag.Value); err == nil {
				tag = reflect.StructTag(s).Get("json")
			}
		}
		if len(fl.Names) == 0 {
			// embedded field: a struct of this package without a tag is flattened in place
			id, ok := fl.Type.(*ast.Ident)
			if !ok || tag != "" {
				st.bad = append(st.bad, name+": unsupported embedded field")
				continue
			}
			inner, ok := st.structs[id.Name]
			if !ok {
				st.bad = append(st.bad, name+": embedded "+id.Name+" is not a known struct")
				continue
			}
			out = append(out, st.fieldsOf(id.Name, inner)...)
			continue
		}
		for _, n := range fl.Names {
			if !n.IsExported() {
				continue
			}
			f := ajField{Go: n.Name, JSON: n.Name}
			if tag == "-" {
				f.Skip = true
			} else if tag != "" {
				parts := strings.Split(tag, ",")
				if parts[0] != "" {
					f.JSON = parts[0]
				}
				for _, o := range parts[1:] {
					switch o {
					case "omitempty":
						f.Omit = true
					default:
						st.bad = append(st.bad, name+"."+n.Name+": tag option "+o)
					}
				}
			}
			t, ok := st.typeOf(fl.Type)
			if !ok {
				st.bad = append(st.bad, name+"."+n.Name+": unsupported type")
				t = "any"
			}
			f.Ty = t
			out = append(out, f)
		}
	}
	return out
}

func ajNamedRefs(t any, acc map[string]bool) {
	if l, ok := t.([]any); ok {
		if l[0] == "named" {
			acc[l[1].(string)] = true
		} else {
			ajNamedRefs(l[1], acc)
		}
	}
}

// methods returns receiver type -> method name -> decl, for the (Un)MarshalJSON methods of the API files.
func (st *ajState) methods() map[string]map[string]*ast.FuncDecl {
	out := map[string]map[string]*ast.FuncDecl{}
	for _, rel := range ajFiles {
		a := st.f.file(rel)
		if a == nil {
			continue
		}
		for _, d := range a.Decls {
			fd, ok := d.(*ast.FuncDecl)
			if !ok || fd.Recv == nil || len(fd.Recv.List) != 1 {
				continue
			}
			if fd.Name.Name != "MarshalJSON" && fd.Name.Name != "UnmarshalJSON" {
				continue
			}
			rt := fd.Recv.List[0].Type
			if s, ok := rt.(*ast.StarExpr); ok {
				rt = s.X
			}
			id, ok := rt.(*ast.Ident)
			if !ok {
				continue
			}
			if out[id.Name] == nil {
				out[id.Name] = map[string]*ast.FuncDecl{}
			}
			out[id.Name][fd.Name.Name] = fd
		}
	}
	return out
}

func ajHasCall(n ast.Node, sel string) bool {
	found := false
	ast.Inspect(n, func(x ast.Node) bool {
		if c, ok := x.(*ast.CallExpr); ok {
			if s, ok := c.Fun.(*ast.SelectorExpr); ok && s.Sel.Name == sel {
				found = true
			}
		}
		return !found
	})
	return found
}

// ajAliasOf: does the body declare `type <alias> <recv>`; returns alias name.
func ajAliasOf(body *ast.BlockStmt, recv string) string {
	alias := ""
	ast.Inspect(body, func(x ast.Node) bool {
		if ts, ok := x.(*ast.TypeSpec); ok {
			if id, ok := ts.Type.(*ast.Ident); ok && id.Name == recv {
				alias = ts.Name.Name
			}
		}
		return true
	})
	return alias
}

// ajUsesAliasPtr: is there an expression (*alias)(ajRecvVar)?
func ajUsesAliasPtr(body *ast.BlockStmt, alias string) bool {
	found := false
	ast.Inspect(body, func(x ast.Node) bool {
		if c, ok := x.(*ast.CallExpr); ok && len(c.Args) == 1 {
			if p, ok := c.Fun.(*ast.ParenExpr); ok {
				if s, ok := p.X.(*ast.StarExpr); ok {
					if id, ok := s.X.(*ast.Ident); ok && id.Name == alias {
						found = true
					}
				}
			}
		}
		return !found
	})
	return found
}

// ajAssignedFields: receiver fields assigned in the body (rv.F = ...)
func ajAssignedFields(body *ast.BlockStmt, rv string) []string {
	set := map[string]bool{}
	ast.Inspect(body, func(x ast.Node) bool {
		if as, ok := x.(*ast.AssignStmt); ok {
			for _, l := range as.Lhs {
				if s, ok := l.(*ast.SelectorExpr); ok {
					if id, ok := s.X.(*ast.Ident); ok && id.Name == rv {
						set[s.Sel.Name] = true
					}
				}
			}
		}
		return true
	})
	out := []string{}
	for k := range set {
		out = append(out, k)
	}
	sort.Strings(out)
	return out
}

func ajRecvVar(fd *ast.FuncDecl) string {
	if len(fd.Recv.List[0].Names) == 1 {
		return fd.Recv.List[0].Names[0].Name
	}
	return ""
}

// ajDelimCases: characters c of `case json.Delim('c')` clauses
func ajDelimCases(body *ast.BlockStmt) string {
	out := ""
	ast.Inspect(body, func(x ast.Node) bool {
		cc, ok := x.(*ast.CaseClause)
		if !ok {
			return true
		}
		for _, e := range cc.List {
			if c, ok := e.(*ast.CallExpr); ok && len(c.Args) == 1 {
				if s, ok := c.Fun.(*ast.SelectorExpr); ok && s.Sel.Name == "Delim" {
					if bl, ok := c.Args[0].(*ast.BasicLit); ok && bl.Kind == token.CHAR {
						if r, err := strconv.Unquote(bl.Value); err == nil {
							out += r
						}
					}
				}
			}
		}
		return true
	})
	return out
}

// classifyUnmarshal recognises the three shapes the model knows.
func (st *ajState) classifyUnmarshal(recv string, fd *ast.FuncDecl) (kind string, raw []ajField) {
	rv := ajRecvVar(fd)
	// Value: anonymous raw struct + UseNumber + token switch on '[' and '{' + default `v.Value = tok`
	var rawStruct *ast.StructType
	ast.Inspect(fd.Body, func(x ast.Node) bool {
		if vs, ok := x.(*ast.ValueSpec); ok && rawStruct == nil {
			if s, ok := vs.Type.(*ast.StructType); ok {
				rawStruct = s
			}
		}
		return true
	})
	if rawStruct != nil {
		for _, fl := range rawStruct.Fields.List {
			tag := ""
			if fl.Tag != nil {
				if s, err := strconv.Unquote(fl.Tag.Value); err == nil {
					tag = reflect.StructTag(s).Get("json")
				}
			}
			for _, n := range fl.Names {
				f := ajField{Go: n.Name, JSON: n.Name}
				parts := strings.Split(tag, ",")
				if parts[0] != "" {
					f.JSON = parts[0]
				}
				for _, o := range parts[1:] {
					if o == "omitempty" {
						f.Omit = true
					}
				}
				if sel, ok := fl.Type.(*ast.SelectorExpr); ok && sel.Sel.Name == "RawMessage" {
					f.Ty = "any" // kept raw, decoded by the token switch
				} else if t, ok := st.typeOf(fl.Type); ok {
					f.Ty = t
				} else {
					f.Ty = "any"
					st.bad = append(st.bad, recv+".UnmarshalJSON raw."+n.Name+": unsupported type")
				}
				raw = append(raw, f)
			}
		}
		d := ajDelimCases(fd.Body)
		af := ajAssignedFields(fd.Body, rv)
		if ajHasCall(fd.Body, "UseNumber") && ajHasCall(fd.Body, "Token") && (d == "[{" || d == "{[") &&
			strings.Join(af, ",") == "Secret,Trace,Unknown,Value" {
			return "CustValue", raw
		}
		return "CustUnknown", raw
	}
	alias := ajAliasOf(fd.Body, recv)
	if alias != "" && ajHasCall(fd.Body, "UseNumber") && ajHasCall(fd.Body, "Decode") && ajUsesAliasPtr(fd.Body, alias) {
		af := ajAssignedFields(fd.Body, rv)
		switch {
		case len(af) == 0:
			return "CustUseNumber", nil
		case strings.Join(af, ",") == "Always,Never":
			return "CustSchema", nil
		}
	}
	return "CustUnknown", nil
}

// ajSchemaMarshalCases: `switch { case s.F: return []byte("false"|"true") ... default: alias marshal }`
func ajSchemaMarshalCases(fd *ast.FuncDecl, recv string) (cases [][2]string, ok bool) {
	rv := ajRecvVar(fd)
	alias := ajAliasOf(fd.Body, recv)
	if alias == "" || !ajUsesAliasPtr(fd.Body, alias) {
		return nil, false
	}
	var sw *ast.SwitchStmt
	for _, s := range fd.Body.List {
		if x, isSw := s.(*ast.SwitchStmt); isSw && x.Tag == nil {
			sw = x
		}
	}
	if sw == nil || len(fd.Body.List) != 1 {
		return nil, false
	}
	for _, c := range sw.Body.List {
		cc := c.(*ast.CaseClause)
		if cc.List == nil {
			continue
		}
		if len(cc.List) != 1 || len(cc.Body) != 1 {
			return nil, false
		}
		sel, isSel := cc.List[0].(*ast.SelectorExpr)
		ret, isRet := cc.Body[0].(*ast.ReturnStmt)
		if !isSel || !isRet || len(ret.Results) != 2 {
			return nil, false
		}
		if id, isID := sel.X.(*ast.Ident); !isID || id.Name != rv {
			return nil, false
		}
		call, isCall := ret.Results[0].(*ast.CallExpr)
		if !isCall || len(call.Args) != 1 {
			return nil, false
		}
		bl, isLit := call.Args[0].(*ast.BasicLit)
		if !isLit || bl.Kind != token.STRING {
			return nil, false
		}
		txt, _ := strconv.Unquote(bl.Value)
		cases = append(cases, [2]string{sel.Sel.Name, txt})
	}
	return cases, true
}

func ajCoqTy(t any) string {
	switch x := t.(type) {
	case string:
		return map[string]string{"bool": "TBool", "int": "TInt", "str": "TStr", "num": "TNum", "any": "TAny"}[x]
	case []any:
		switch x[0] {
		case "ptr":
			return "(TPtr " + ajCoqTy(x[1]) + ")"
		case "slice":
			return "(TSlice " + ajCoqTy(x[1]) + ")"
		case "map":
			return "(TMap " + ajCoqTy(x[1]) + ")"
		case "named":
			return fmt.Sprintf("(TNamed %q)", x[1])
		}
	}
	return "TFloat"
}

func ajCoqBool(b bool) string {
	if b {
		return "true"
	}
	return "false"
}

func ajCoqFields(fs []ajField) string {
	var l []string
	for _, f := range fs {
		l = append(l, fmt.Sprintf("    mkField %q %q %s %s %s", f.Go, f.JSON, ajCoqBool(f.Omit), ajCoqBool(f.Skip), ajCoqTy(f.Ty)))
	}
	return "[\n" + strings.Join(l, ";\n") + " ]"
}

func srcApiJSON(f *facts, o *out) {
	st := &ajState{f: f, structs: map[string]*ast.StructType{}, file: map[string]string{}}
	st.load()
	// reachable structs from the roots, in a deterministic order
	roots := []string{"Environment", "Value", "Expr", "Schema"}
	seen := map[string]bool{}
	var order []string
	tables := map[string]*ajStruct{}
	var visit func(n string)
	visit = func(n string) {
		if seen[n] {
			return
		}
		seen[n] = true
		stt, ok := st.structs[n]
		if !ok {
			st.bad = append(st.bad, "missing struct "+n)
			return
		}
		s := &ajStruct{Name: n, Fields: st.fieldsOf(n, stt), Marshal: "CustNone", Unmarshal: "CustNone"}
		tables[n] = s
		order = append(order, n)
		refs := map[string]bool{}
		for _, fl := range s.Fields {
			ajNamedRefs(fl.Ty, refs)
		}
		var rs []string
		for r := range refs {
			rs = append(rs, r)
		}
		sort.Strings(rs)
		for _, r := range rs {
			visit(r)
		}
	}
	for _, r := range roots {
		visit(r)
	}
	var rawValue []ajField
	var marshalCases [][2]string
	customOK := true
	for recv, ms := range st.methods() {
		s, ok := tables[recv]
		if !ok {
			continue
		}
		if fd, ok := ms["UnmarshalJSON"]; ok {
			kind, raw := st.classifyUnmarshal(recv, fd)
			s.Unmarshal = kind
			if kind == "CustValue" || raw != nil {
				rawValue = raw
			}
			if kind == "CustUnknown" {
				customOK = false
			}
		}
		if fd, ok := ms["MarshalJSON"]; ok {
			if cases, ok := ajSchemaMarshalCases(fd, recv); ok {
				s.Marshal = "CustSchema"
				marshalCases = cases
			} else {
				s.Marshal = "CustUnknown"
				customOK = false
			}
		}
	}

	o.add("From Verif Require Import Model.ApiJson.")
	o.add("Open Scope string_scope.")
	o.add("Open Scope list_scope.")
	var defs []string
	for _, n := range order {
		s := tables[n]
		defs = append(defs, fmt.Sprintf("  mkSdef %q %s %s %s", s.Name, ajCoqFields(s.Fields), s.Marshal, s.Unmarshal))
	}
	o.add("Definition src_tables : tables := [\n%s ].", strings.Join(defs, ";\n"))
	o.add("(* the anonymous struct Value.UnmarshalJSON decodes into (json.RawMessage shown as TAny) *)")
	o.add("Definition value_raw_fields : list field := %s.", ajCoqFields(rawValue))
	var cs []string
	for _, c := range marshalCases {
		cs = append(cs, fmt.Sprintf("(%q, %q)", c[0], c[1]))
	}
	o.add("(* Schema.MarshalJSON: case <field> => literal, in source order *)")
	o.add("Definition schema_marshal_cases : list (string * string) := [%s].", strings.Join(cs, "; "))

	if len(st.bad) == 0 {
		f.status["apijson_tables"] = "ok"
	} else {
		f.status["apijson_tables"] = "unrecognised: " + strings.Join(st.bad, "; ")
	}
	if customOK {
		f.status["apijson_custom_methods"] = "ok"
	} else {
		f.status["apijson_custom_methods"] = "unrecognised"
	}

	// the same tables for the generator
	var list []*ajStruct
	for _, n := range order {
		list = append(list, tables[n])
	}
	js, _ := json.MarshalIndent(map[string]any{"structs": list, "value_raw": rawValue, "schema_marshal_cases": marshalCases}, "", " ")
	if len(os.Args) == 3 {
		p := filepath.Join(os.Args[2], "SrcApiJson.tables.json")
		if old, err := os.ReadFile(p); err != nil || string(old) != string(js) {
			os.WriteFile(p, js, 0o644)
		}
	}
}
